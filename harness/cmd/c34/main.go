// C34 — Built-in scalar functions satisfy their defining identities (sql/expression/function).
//
// extract: the function registry (go/ast over registry.go), the constants the model depends on
// (go/ast), and lookup tables dumped by running the freshly compiled functions (HEX of every
// byte, UPPER/LOWER of every ASCII byte, the base64 alphabet).
//
// run: a single-call case is ONE call `name(literal, …)` of a registered function on literal arguments
// (NULL / BIGINT / LONGTEXT / LONGBLOB), evaluated through the registry's constructor
// (`sql.Function.NewInstance`) and `Eval`; the observation is the Go value (kind + bytes), an
// error class, or `crash`. The Lean driver answers with the Impl model's prediction, the Spec and
// the region. The model-free oracle evaluates the property's identities (inverse pairs, length
// laws, split/concat, mutual consistency, NULL propagation) by composing calls on the real code;
// every intermediate call is itself a correspondence case. rows.go adds the statement-level
// streams (one node, one Eval per row, results read after the last row), facts_nodes.go the
// regenerated facts about the state of the function nodes.
package main

import (
	"encoding/base64"
	"errors"
	"fmt"
	"go/ast"
	"go/token"
	"math"
	"sort"
	"strconv"
	"strings"
	"unicode"
	"unicode/utf8"

	sqlparser "github.com/dolthub/vitess/go/vt/sqlparser"

	"github.com/dolthub/go-mysql-server/sql"
	"github.com/dolthub/go-mysql-server/sql/expression"
	"github.com/dolthub/go-mysql-server/sql/expression/function"
	"github.com/dolthub/go-mysql-server/sql/types"
	"github.com/dolthub/go-mysql-server/verifharness/hx"
	"github.com/dolthub/go-mysql-server/verifharness/hx/eng"
)

func main() { hx.Main(extract, run) }

// ---------------------------------------------------------------------------------------------
// Values and calls

type kind int

const (
	kNull kind = iota
	kInt
	kText
	kBlob
)

type val struct {
	k kind
	i int64
	b string
}

func vNull() val         { return val{k: kNull} }
func vInt(i int64) val   { return val{k: kInt, i: i} }
func vText(s string) val { return val{k: kText, b: s} }
func vBlob(s string) val { return val{k: kBlob, b: s} }

func (v val) sexp() string {
	switch v.k {
	case kNull:
		return "null"
	case kInt:
		return "(i " + strconv.FormatInt(v.i, 10) + ")"
	case kText:
		return "(t " + hx.HexS(v.b) + ")"
	default:
		return "(b " + hx.HexS(v.b) + ")"
	}
}

func (v val) lit() sql.Expression {
	switch v.k {
	case kNull:
		return expression.NewLiteral(nil, types.Null)
	case kInt:
		return expression.NewLiteral(v.i, types.Int64)
	case kText:
		return expression.NewLiteral(v.b, types.LongText)
	default:
		return expression.NewLiteral([]byte(v.b), types.LongBlob)
	}
}

func (v val) isStr() bool { return v.k == kText || v.k == kBlob }

// result of a call on the real code
type res struct {
	obs string // canonical observation
	v   val    // value when ok
	ok  bool
}

type world struct {
	ctx  *sql.Context
	reg  map[string]sql.Function
	out  *hx.Out
	seen map[string]cached
}

type cached struct {
	id string
	r  res
}

// sqlName maps the model's function name to the registry name ("" = not from the registry).
func sqlName(name string) string {
	switch name {
	case "trim_both", "trim_leading", "trim_trailing":
		return ""
	}
	return name
}

func (w *world) build(name string, args []val) (sql.Expression, error) {
	lits := make([]sql.Expression, len(args))
	for i, a := range args {
		lits[i] = a.lit()
	}
	return w.buildOn(name, lits)
}

// buildOn constructs the function node over arbitrary argument expressions (literals for a single
// call, column references for the multi-row streams of rows.go).
func (w *world) buildOn(name string, lits []sql.Expression) (sql.Expression, error) {
	switch name {
	case "trim_both", "trim_leading", "trim_trailing":
		if len(lits) != 2 {
			return nil, fmt.Errorf("trim needs (str, pat)")
		}
		dir := map[string]string{"trim_both": sqlparser.Both, "trim_leading": sqlparser.Leading, "trim_trailing": sqlparser.Trailing}[name]
		return function.NewTrim(lits[0], lits[1], dir), nil
	}
	f, ok := w.reg[name]
	if !ok {
		return nil, fmt.Errorf("function %q is not registered", name)
	}
	return f.NewInstance(w.ctx, lits)
}

func classify(err error) string {
	var cie base64.CorruptInputError
	switch {
	case types.ErrBadCharsetString.Is(err):
		return "err:charset"
	case sql.ErrCollationMalformedString.Is(err):
		return "err:malformed"
	case function.ErrNegativeRepeatCount.Is(err):
		return "err:repeat"
	case sql.ErrInvalidType.Is(err):
		return "err:invalidtype"
	case errors.As(err, &cie):
		return "err:base64"
	}
	return "err:other"
}

func goInt(v interface{}) (int64, bool) {
	switch x := v.(type) {
	case int:
		return int64(x), true
	case int8:
		return int64(x), true
	case int16:
		return int64(x), true
	case int32:
		return int64(x), true
	case int64:
		return x, true
	case uint8:
		return int64(x), true
	case uint16:
		return int64(x), true
	case uint32:
		return int64(x), true
	case uint:
		if uint64(x) <= math.MaxInt64 {
			return int64(x), true
		}
	case uint64:
		if x <= math.MaxInt64 {
			return int64(x), true
		}
	}
	return 0, false
}

// evalRaw evaluates one call on the real code (no recording).
func (w *world) evalRaw(name string, args []val) res {
	var r res
	p := hx.Safe(func() {
		e, err := w.build(name, args)
		if err != nil {
			r = res{obs: "err:construct"}
			return
		}
		v, err := e.Eval(w.ctx, nil)
		if err != nil {
			r = res{obs: classify(err)}
			return
		}
		r = w.canon(v)
	})
	if p != "" {
		return res{obs: "crash"}
	}
	return r
}

// canon reads a value returned by Eval into the canonical observation (kind + a COPY of the bytes):
// reading the same Go value again later shows whether the storage behind it was written meanwhile.
func (w *world) canon(v interface{}) res {
	var r res
	v, err := sql.UnwrapAny(w.ctx, v)
	if err != nil {
		return res{obs: "err:unwrap"}
	}
	switch x := v.(type) {
	case nil:
		r = res{obs: "null", v: vNull(), ok: true}
	case string:
		r = res{v: vText(strings.Clone(x)), ok: true}
	case []byte:
		r = res{v: vBlob(string(x)), ok: true}
	default:
		if i, ok := goInt(v); ok {
			r = res{v: vInt(i), ok: true}
		} else {
			r = res{obs: fmt.Sprintf("other:%T:%v", v, v)}
		}
	}
	if r.ok {
		r.obs = r.v.sexp()
	}
	return r
}

func payload(name string, args []val) string {
	parts := make([]string, 0, len(args)+2)
	parts = append(parts, "call", name)
	for _, a := range args {
		parts = append(parts, a.sexp())
	}
	return "(" + strings.Join(parts, " ") + ")"
}

// caseless reports whether every non-ASCII rune of s has no case mapping (the model's ToUpper /
// ToLower table is ASCII-only) and s is valid UTF-8 or the function does not case-map.
func caseless(s string) bool {
	for _, r := range s {
		if r >= 0x80 && (unicode.ToUpper(r) != r || unicode.ToLower(r) != r) {
			return false
		}
	}
	return true
}

var caseMapping = map[string]bool{"upper": true, "lower": true, "locate": true, "unhex": true}

// envelope rejects calls outside what the model covers (a harness defect, not an observation).
func envelope(name string, args []val) error {
	for _, a := range args {
		if a.isStr() {
			if caseMapping[name] && !caseless(a.b) {
				return fmt.Errorf("%s: argument %q has a non-ASCII cased rune (model's case table is ASCII-only)", name, a.b)
			}
			if name == "inet_aton" && strings.ContainsAny(a.b, ":") {
				return fmt.Errorf("inet_aton: IPv6 syntax is outside the model")
			}
			if len(a.b) > 4096 {
				return fmt.Errorf("%s: argument too long", name)
			}
		}
	}
	switch name {
	case "repeat":
		if len(args) == 2 && args[1].k == kInt && args[0].isStr() && (args[1].i > 1<<12 || (args[1].i > 0 && int64(len(args[0].b))*args[1].i > 1<<16)) {
			return fmt.Errorf("repeat: result too large for the harness")
		}
	case "lpad", "rpad":
		if len(args) == 3 && args[1].k == kInt && args[1].i > 1<<16 && args[2].isStr() && args[2].b != "" {
			return fmt.Errorf("pad: result too large for the harness")
		}
	case "abs":
		// ABS(-2^63) wraps: arithmetic overflow is C25's region (F-C25-c), kept out of this envelope
		if len(args) == 1 && args[0].k == kInt && args[0].i == math.MinInt64 {
			return fmt.Errorf("abs(minInt64) belongs to C25")
		}
	case "greatest", "least":
		for _, a := range args {
			if a.k == kInt && (a.i > 1<<62 || a.i < -(1<<62)) {
				return fmt.Errorf("greatest/least: |arg| > 2^62 makes int64(float64) platform dependent")
			}
		}
	}
	return nil
}

var harnessErr error

// ev evaluates a call on the real code and records it as a correspondence case.
func (w *world) ev(name string, args ...val) (string, res) {
	key := payload(name, args)
	if c, ok := w.seen[key]; ok {
		return c.id, c.r
	}
	if err := envelope(name, args); err != nil {
		if harnessErr == nil {
			harnessErr = fmt.Errorf("generator produced a call outside the envelope: %v: %s", err, key)
		}
		return "0", res{obs: "harness-error"}
	}
	r := w.evalRaw(name, args)
	nontrivial := r.ok && r.v.k != kNull
	for _, a := range args {
		if a.k == kNull {
			nontrivial = false
		}
	}
	id := w.out.Case(key, r.obs, nontrivial)
	w.out.Stat("fn:" + name)
	switch {
	case r.obs == "crash":
		w.out.Stat("obs:crash")
	case strings.HasPrefix(r.obs, "err:"):
		w.out.Stat("obs:" + r.obs)
	case r.ok && r.v.k == kNull:
		w.out.Stat("obs:null")
	default:
		w.out.Stat("obs:value")
	}
	if strings.HasPrefix(r.obs, "other:") || r.obs == "err:construct" || r.obs == "err:unwrap" {
		if harnessErr == nil {
			harnessErr = fmt.Errorf("unexpected observation %q for %s", r.obs, key)
		}
	}
	if len(w.seen) < 400000 {
		w.seen[key] = cached{id, r}
	}
	return id, r
}

// ---------------------------------------------------------------------------------------------
// Region predicates as the harness sees them (model free; mirror of the statement, not of Lean)

func nonASCII(s string) bool {
	for i := 0; i < len(s); i++ {
		if s[i] >= 0x80 {
			return true
		}
	}
	return false
}
func upperASCII(s string) bool {
	for i := 0; i < len(s); i++ {
		if 'A' <= s[i] && s[i] <= 'Z' {
			return true
		}
	}
	return false
}

func (w *world) fail(id, tag, format string, a ...interface{}) {
	w.out.OracleFail(id, tag, fmt.Sprintf(format, a...))
	w.out.Stat("oracle-fail:" + tag)
}

// ---------------------------------------------------------------------------------------------
// Generators

var asciiAlpha = []string{"a", "b", "A", "B", "x", "z", "0", "1", "5", "9", " ", " ", "-", "+", "=", "/", ".", "f", "F", "g"}

// caseless multi-byte characters (validated at start-up) of 2, 3 and 4 bytes, plus U+FFFD itself
var mbAlpha = []string{"\u00d7", "\u00bf", "\u20ac", "\u4e2d", "\U0001F600", "\ufffd", "\u07ff", "\u0800", "\uffff", "\U00010000", "\U0010FFFF", "\ud7ff", "\ue000"}

// ill-formed fragments: lone lead, lone continuation, truncated 3-byte, surrogate, overlong, >U+10FFFF
var badFrag = []string{"\xc3", "\x80", "\xe2\x82", "\xed\xa0\x80", "\xc0\x80", "\xf5\x80\x80\x80", "\xf4\x90\x80\x80", "\xe0\x9f\xbf", "\xf0\x8f\xbf\xbf", "\xff"}

type gen struct {
	r *hx.Rand
}

// str draws a string: mostly short; valid unless bad is allowed and chosen.
func (g *gen) str(allowBad bool) string {
	n := g.r.Intn(7)
	if g.r.Chance(1, 12) {
		n = g.r.Range(7, 14)
	}
	var b strings.Builder
	mb := g.r.Chance(1, 2)
	for i := 0; i < n; i++ {
		switch {
		case allowBad && g.r.Chance(1, 14):
			b.WriteString(hx.Pick(g.r, badFrag))
		case mb && g.r.Chance(1, 3):
			b.WriteString(hx.Pick(g.r, mbAlpha))
		default:
			b.WriteString(hx.Pick(g.r, asciiAlpha))
		}
	}
	return b.String()
}

// sval draws a string-valued argument (text mostly, sometimes blob, rarely NULL).
func (g *gen) sval(allowBad bool) val {
	switch {
	case g.r.Chance(1, 25):
		return vNull()
	case g.r.Chance(1, 6):
		return vBlob(g.str(allowBad))
	}
	return vText(g.str(allowBad))
}

// related draws a string related to s (a substring, or a case/character variation) or a fresh one.
func (g *gen) related(s string) string {
	rs := []rune(s)
	if !utf8.ValidString(s) || len(rs) == 0 || g.r.Chance(1, 4) {
		return g.str(false)
	}
	i := g.r.Intn(len(rs))
	j := i + g.r.Intn(len(rs)-i+1)
	sub := string(rs[i:j])
	if g.r.Chance(1, 5) {
		sub = strings.ToUpper(sub)
	}
	if g.r.Chance(1, 8) {
		sub += hx.Pick(g.r, asciiAlpha)
	}
	return sub
}

var smallInts = []int64{0, 1, 2, 3, 4, 5, 7, 10, -1, -2, -3, -5}
var bigInts = []int64{math.MaxInt64, math.MinInt64, math.MaxInt64 - 1, math.MinInt64 + 1, 1 << 31, 1<<31 - 1, -(1 << 31), -(1 << 31) - 1,
	1 << 32, 1<<32 - 1, 1 << 53, 1<<53 + 1, -(1<<53 + 1), 1<<62 - 1, 255, 256, -256, -129, -128, 127, 128, 65535, 65536, 3232236031, 2147483648, 16909060}

func (g *gen) smallInt() val {
	if g.r.Chance(1, 25) {
		return vNull()
	}
	if g.r.Chance(1, 12) {
		return vInt(hx.Pick(g.r, bigInts))
	}
	if g.r.Chance(1, 6) {
		return vInt(int64(g.r.Range(-20, 20)))
	}
	return vInt(hx.Pick(g.r, smallInts))
}

func (g *gen) anyInt() val {
	switch g.r.Intn(10) {
	case 0:
		return vNull()
	case 1, 2:
		return vInt(hx.Pick(g.r, bigInts))
	case 3, 4:
		return vInt(int64(g.r.U64()))
	case 5:
		return vInt(int64(g.r.U64() >> uint(g.r.Intn(64))))
	case 6:
		return vInt(-int64(g.r.U64() >> uint(1+g.r.Intn(63))))
	}
	return vInt(int64(g.r.Range(-300, 300)))
}

// boundedInt avoids |i| > 2^62 (GREATEST/LEAST envelope) and minInt64 (ABS envelope).
func (g *gen) boundedInt() val {
	v := g.anyInt()
	if v.k == kInt && (v.i > 1<<62 || v.i < -(1<<62)) {
		v.i >>= 2
	}
	return v
}

// ---------------------------------------------------------------------------------------------

func run(a hx.RunArgs) error {
	out := hx.NewOut(a.OutDir)
	defer out.Close()
	out.Rule = "one case = one call name(literals) of a registered scalar function (NULL/BIGINT/LONGTEXT/LONGBLOB literals; strings over ASCII + caseless 2/3/4-byte " +
		"characters + ill-formed UTF-8 fragments; integers small, boundary and random 64-bit), produced by a corpus of witnesses, per-function argument generators " +
		"and the identity oracles (whose intermediate calls are cases too); a case is non-trivial when no argument is NULL and the result is a non-NULL value; " +
		"statement-level cases (rows / stmt): ONE node of a modelled function evaluated for 2-7 rows of same-kind argument tuples (half of them longest first, some with a repeated row) — " +
		"directly (constructor over column references, returned Go values retained and read after the last row) and through Engine.Query over a table (ORDER BY id / ORDER BY the computed value, " +
		"whole result set fetched, raw rows read afterwards); non-trivial when at least two rows have distinct non-NULL results"
	e := eng.New("d")
	w := &world{ctx: e.Ctx(), reg: map[string]sql.Function{}, out: out, seen: map[string]cached{}}
	for _, f := range function.BuiltIns {
		w.reg[strings.ToLower(f.FunctionName())] = f
	}
	for _, s := range mbAlpha {
		if !caseless(s) || !utf8.ValidString(s) {
			return fmt.Errorf("harness alphabet: %q is cased or ill-formed", s)
		}
	}
	for _, s := range badFrag {
		if utf8.ValidString(s) {
			return fmt.Errorf("harness alphabet: %q is well-formed", s)
		}
	}
	root := hx.NewRand(a.Seed)
	g := &gen{r: root.Fork()}

	corpus(w)
	if harnessErr != nil {
		return harnessErr
	}

	nCalls, nIdent := 1500, 1200
	if a.Thorough {
		nCalls, nIdent = 60000, 50000
	}
	randomCalls(w, &gen{r: root.Fork()}, nCalls)
	exhaustiveSmall(w, a.Thorough)
	identities(w, g, nIdent)
	// statement-level streams (rows.go) on a generator of their own: the older streams do not shift
	nRows, nStmt := 14, 2
	if a.Thorough {
		nRows, nStmt = 500, 40
	}
	rowStreams(w, &gen{r: hx.NewRand(a.Seed*1000003 + 34)}, nRows, nStmt)
	if harnessErr != nil {
		return harnessErr
	}
	return nil
}

// corpus: witnesses of the known findings and regression cases, first.
func corpus(w *world) {
	T, B, I, N := vText, vBlob, vInt, vNull()
	_ = B
	// F-C34-b LPAD/RPAD count bytes
	w.padIdentity(T("é"), 3, T("ab"), true)
	w.padIdentity(T("héllo"), 2, T("x"), true)
	w.padIdentity(T("é"), 5, T("😀"), true)
	w.padIdentity(T("abc"), 5, T("xy"), false)
	// F-C34-a INET_NTOA clamps to int32
	w.inetIdentity("192.168.1.255")
	w.inetIdentity("127.255.255.255")
	w.inetIdentity("128.0.0.0")
	w.inetIdentity("1.2.3.4")
	w.ev("inet_ntoa", I(-1))
	w.ev("inet_ntoa", I(4294967296))
	// LOCATE: bytes, case folding, NULL position, panic
	w.locateIdentity(T("b"), T("×b"), nil)
	w.locateIdentity(T("A"), T("a"), nil)
	w.locateIdentity(T("a"), T(""), &[]val{I(2)}[0]) // witness of the repaired locate_empty_str_pos_panics: must be 0 now
	w.locateEmpty(T("a"), 2)
	w.locateEmpty(T("a"), 1)
	w.locateEmpty(T("ab"), 3)
	w.locateEmpty(T("A"), math.MaxInt32)
	w.locateEmpty(T("€"), math.MaxInt64)
	w.locateEmpty(T(""), 2)
	w.locateIdentity(T("a"), T("a"), &N)
	w.locateIdentity(T("lo"), T("hello"), &[]val{I(2)}[0])
	// BIN of negative numbers
	w.baseIdentity(-256)
	w.baseIdentity(-1)
	w.baseIdentity(5)
	// SUBSTRING length overflow
	// (witnesses of the repaired substring_len_overflow_panics: must be the rest of the string now)
	w.check1("substring", T("abc"), I(2), I(math.MaxInt64))
	w.check1("substring", T("abc"), I(-1), I(math.MaxInt64))
	w.check1("substring", T("abc"), I(1), I(math.MaxInt64))
	w.substrRest(T("abc"), 2, math.MaxInt64)
	w.substrRest(T("abc"), -2, math.MaxInt64)
	w.substrRest(T("abc"), 3, math.MaxInt64-1)
	w.substrRest(T("héllo€"), 6, math.MaxInt64-4)
	w.substrRest(T("héllo€"), -6, math.MaxInt64)
	w.substrRest(T("abc"), math.MinInt64, math.MaxInt64)
	w.substrRest(T("abc"), math.MaxInt64, math.MaxInt64)
	w.substrRest(T(""), 1, math.MaxInt64)
	w.ev("substring", T("hello"), I(-2))
	w.ev("substring", T("hello"), I(0))
	// GREATEST/LEAST through float64
	w.glIdentity(true, []int64{9007199254740993, 1})
	w.glIdentity(false, []int64{-9007199254740993, 1})
	w.glIdentity(true, []int64{1, 2, 3})
	// miscellany
	w.ev("conv", T("-9223372036854775809"), I(10), I(10))
	w.ev("conv", T("18446744073709551616"), I(10), I(16))
	w.ev("conv", T("zz"), I(36), I(2))
	w.ev("char_length", T("�"))
	w.ev("char_length", T("a\xc3"))
	w.ev("reverse", B("\xc3"))
	w.ev("left", B("\xc3\xa9\xc3"), I(2))
	w.ev("unhex", T("abc"))
	w.ev("from_base64", T("YWJ"))
	w.ev("round", I(-15), I(-1))
	w.ev("round", I(math.MaxInt64), I(-1))
	w.ev("truncate", I(19), I(-1))
	w.ev("trim_both", T("xxaxx"), T("x"))
}

var fnArity = map[string][]int{
	"length": {1}, "char_length": {1}, "concat": {1, 2, 3}, "substring": {2, 3}, "left": {2}, "right": {2}, "instr": {2}, "locate": {2, 3},
	"reverse": {1}, "repeat": {2}, "replace": {3}, "lpad": {3}, "rpad": {3}, "trim_both": {2}, "trim_leading": {2}, "trim_trailing": {2},
	"ltrim": {1}, "rtrim": {1}, "upper": {1}, "lower": {1}, "hex": {1}, "unhex": {1}, "to_base64": {1}, "from_base64": {1},
	"abs": {1}, "sign": {1}, "floor": {1}, "ceil": {1}, "round": {1, 2}, "truncate": {2}, "greatest": {1, 2, 3}, "least": {1, 2, 3},
	"conv": {3}, "bin": {1}, "oct": {1}, "inet_aton": {1}, "inet_ntoa": {1},
}

func fnNames() []string {
	names := make([]string, 0, len(fnArity))
	for n := range fnArity {
		names = append(names, n)
	}
	sort.Strings(names)
	return names
}

// genArgs draws type-directed arguments for one call of `name`.
func (g *gen) genArgs(name string) []val {
	ar := hx.Pick(g.r, fnArity[name])
	switch name {
	case "length", "char_length", "hex":
		if g.r.Chance(1, 5) {
			return []val{g.anyInt()}
		}
		return []val{g.sval(true)}
	case "concat":
		args := make([]val, ar)
		for i := range args {
			if g.r.Chance(1, 8) {
				args[i] = g.anyInt()
			} else {
				args[i] = g.sval(true)
			}
		}
		return args
	case "substring":
		args := []val{g.sval(true), g.smallInt()}
		if ar == 3 {
			args = append(args, g.smallInt())
		}
		return args
	case "left", "right":
		return []val{g.sval(true), g.smallInt()}
	case "instr":
		s := g.sval(true)
		return []val{s, g.subOf(s, true)}
	case "locate":
		s := g.sval(true)
		args := []val{g.subOf(s, true), s}
		if ar == 3 {
			args = append(args, g.smallInt())
		}
		return args
	case "reverse", "ltrim", "rtrim", "upper", "lower", "to_base64":
		return []val{g.sval(true)}
	case "repeat":
		n := g.smallInt()
		if n.k == kInt && n.i > 1<<12 {
			n.i = 3
		}
		return []val{g.sval(true), n}
	case "replace":
		s := g.sval(true)
		return []val{s, g.subOf(s, true), g.sval(true)}
	case "lpad", "rpad":
		n := g.smallInt()
		if n.k == kInt && n.i > 1<<16 {
			n.i = 9
		}
		return []val{g.sval(true), n, g.sval(true)}
	case "trim_both", "trim_leading", "trim_trailing":
		p := g.sval(true)
		s := g.sval(true)
		if p.isStr() && s.isStr() && utf8.ValidString(p.b) && g.r.Chance(2, 3) {
			s.b = strings.Repeat(p.b, g.r.Intn(3)) + s.b + strings.Repeat(p.b, g.r.Intn(3))
		}
		return []val{s, p}
	case "unhex":
		if g.r.Chance(1, 2) {
			h := fmt.Sprintf("%x", g.str(true))
			if g.r.Chance(1, 3) {
				h = strings.ToUpper(h)
			}
			if g.r.Chance(1, 4) && len(h) > 0 {
				h = h[1:]
			}
			return []val{vText(h)}
		}
		return []val{g.sval(true)}
	case "from_base64":
		if g.r.Chance(2, 3) {
			raw := g.str(true)
			if g.r.Chance(1, 6) {
				raw = strings.Repeat(raw+"q", 12)
			}
			enc := base64.StdEncoding.EncodeToString([]byte(raw))
			switch g.r.Intn(8) {
			case 0:
				enc = strings.TrimRight(enc, "=")
			case 1:
				if len(enc) > 2 {
					enc = enc[:2] + "\n" + enc[2:]
				}
			case 2:
				enc += "A"
			case 3:
				if len(enc) > 1 {
					enc = enc[:1] + "!" + enc[2:]
				}
			case 4:
				enc += "\r\n"
			}
			return []val{vText(enc)}
		}
		return []val{g.sval(true)}
	case "abs":
		v := g.anyInt()
		if v.k == kInt && v.i == math.MinInt64 {
			v.i++
		}
		return []val{v}
	case "sign", "floor", "ceil", "bin", "oct", "inet_ntoa":
		return []val{g.anyInt()}
	case "round":
		if ar == 1 {
			return []val{g.anyInt()}
		}
		return []val{g.anyInt(), g.digitsArg()}
	case "truncate":
		return []val{g.anyInt(), g.digitsArg()}
	case "greatest", "least":
		args := make([]val, ar)
		for i := range args {
			args[i] = g.boundedInt()
		}
		return args
	case "conv":
		var n val
		switch g.r.Intn(4) {
		case 0:
			n = g.anyInt()
		case 1:
			n = g.sval(true)
		default:
			digits := "0123456789abcdefghijklmnopqrstuvwxyzABCXYZ"
			ln := g.r.Intn(6)
			if g.r.Chance(1, 5) {
				ln = g.r.Range(15, 70)
			}
			var b strings.Builder
			if g.r.Chance(1, 4) {
				b.WriteString(hx.Pick(g.r, []string{"-", "+", "--", " "}))
			}
			lim := g.r.Range(2, len(digits))
			for i := 0; i < ln; i++ {
				b.WriteByte(digits[g.r.Intn(lim)])
			}
			if g.r.Chance(1, 6) {
				b.WriteString(hx.Pick(g.r, []string{".", "x", "_", "-"}))
				b.WriteByte(digits[g.r.Intn(10)])
			}
			n = vText(b.String())
		}
		return []val{n, g.baseArg(), g.baseArg()}
	case "inet_aton":
		if g.r.Chance(1, 8) {
			return []val{g.anyInt()}
		}
		parts := g.r.Range(3, 5)
		if g.r.Chance(3, 4) {
			parts = 4
		}
		var b strings.Builder
		for i := 0; i < parts; i++ {
			if i > 0 {
				b.WriteByte('.')
			}
			switch g.r.Intn(10) {
			case 0:
				b.WriteString(strconv.Itoa(g.r.Range(250, 260)))
			case 1:
				b.WriteString("0" + strconv.Itoa(g.r.Intn(10)))
			case 2:
			default:
				b.WriteString(strconv.Itoa(g.r.Intn(256)))
			}
		}
		if g.r.Chance(1, 10) {
			b.WriteString(hx.Pick(g.r, []string{" ", ".", "a", "\xc3"}))
		}
		if g.r.Chance(1, 15) {
			return []val{vBlob(b.String())}
		}
		return []val{vText(b.String())}
	}
	panic("no generator for " + name)
}

func (g *gen) digitsArg() val {
	switch g.r.Intn(8) {
	case 0:
		return vNull()
	case 1:
		return vInt(hx.Pick(g.r, []int64{-30, -31, -65, -66, 30, 65, math.MinInt64, math.MaxInt64, -19, -18, -20}))
	case 2:
		return vInt(int64(g.r.Range(0, 5)))
	}
	return vInt(-int64(g.r.Range(1, 19)))
}

func (g *gen) baseArg() val {
	switch g.r.Intn(12) {
	case 0:
		return vNull()
	case 1:
		return vInt(hx.Pick(g.r, []int64{0, 1, -1, 37, -37, 100, math.MinInt64, math.MaxInt64}))
	case 2, 3:
		return vInt(-int64(g.r.Range(2, 36)))
	case 4, 5:
		return vInt(hx.Pick(g.r, []int64{2, 8, 10, 16, 36}))
	}
	return vInt(int64(g.r.Range(2, 36)))
}

// subOf draws a needle related to the haystack s.
func (g *gen) subOf(s val, allowBad bool) val {
	if !s.isStr() || g.r.Chance(1, 6) {
		return g.sval(allowBad)
	}
	sub := g.related(s.b)
	if g.r.Chance(1, 8) {
		return vBlob(sub)
	}
	return vText(sub)
}

func needsCaseless(name string) bool { return caseMapping[name] }

func randomCalls(w *world, g *gen, perFn int) {
	for _, name := range fnNames() {
		for i := 0; i < perFn; i++ {
			args := g.genArgs(name)
			if needsCaseless(name) {
				okc := true
				for _, a := range args {
					if a.isStr() && !caseless(a.b) {
						okc = false
					}
				}
				if !okc {
					continue
				}
			}
			if envelope(name, args) != nil {
				w.out.Stat("gen:outside-envelope")
				continue
			}
			id, r := w.ev(name, args...)
			// NULL propagation and crash freedom are part of the statement: every call is checked
			w.nullAndCrash(id, name, args, r)
		}
	}
}

// nullAndCrash: a NULL argument makes the result NULL; no call panics.
func (w *world) nullAndCrash(id, name string, args []val, r res) {
	if r.obs == "crash" {
		w.fail(id, crashTag(name, args), "%s panics", payload(name, args))
		return
	}
	hasNull := false
	for _, a := range args {
		if a.k == kNull {
			hasNull = true
		}
	}
	if hasNull && !(r.ok && r.v.k == kNull) && !strings.HasPrefix(r.obs, "err:") {
		tag := "-"
		if name == "locate" && len(args) == 3 && args[2].k == kNull && args[0].k != kNull && args[1].k != kNull {
			tag = "locate_null_pos"
		}
		w.fail(id, tag, "%s has a NULL argument but returns %s", payload(name, args), r.obs)
	}
}

// crashTag: no panic class is a listed finding any more. The two that were
// (locate_empty_str_pos_panics: LOCATE with an empty haystack and pos>1; substring_len_overflow_panics: SUBSTRING with
// startIdx+len beyond int64) were repaired by the `fix:` commit, so a call that panics — these two
// classes included — is an unlisted failure (region "-" ⇒ VIOLATION).
func crashTag(name string, args []val) string {
	return "-"
}

// exhaustiveSmall enumerates small domains completely: every string over a 4-symbol alphabet (one
// of them multi-byte) up to length 3 × small integer arguments, for the position-taking functions.
func exhaustiveSmall(w *world, thorough bool) {
	syms := []string{"a", "B", "€"}
	maxLen := 2
	if thorough {
		syms = append(syms, " ")
		maxLen = 3
	}
	strs := []string{""}
	cur := []string{""}
	for l := 1; l <= maxLen; l++ {
		var next []string
		for _, s := range cur {
			for _, c := range syms {
				next = append(next, s+c)
			}
		}
		strs = append(strs, next...)
		cur = next
	}
	lo, hi := int64(-3), int64(4)
	for _, s := range strs {
		for p := lo; p <= hi; p++ {
			w.check1("left", vText(s), vInt(p))
			w.check1("right", vText(s), vInt(p))
			w.check1("substring", vText(s), vInt(p))
			for l := int64(-1); l <= 3; l++ {
				w.check1("substring", vText(s), vInt(p), vInt(l))
			}
			for _, pad := range []string{"", "x", "€", "ab"} {
				w.check1("lpad", vText(s), vInt(p), vText(pad))
				w.check1("rpad", vText(s), vInt(p), vText(pad))
			}
		}
		for _, t := range strs {
			if len(t) > 6 && !thorough {
				continue
			}
			w.check1("instr", vText(s), vText(t))
			for p := int64(0); p <= 3; p++ {
				w.check1("locate", vText(t), vText(s), vInt(p))
			}
			w.check1("trim_both", vText(s), vText(t))
			w.check1("replace", vText(s), vText(t), vText("z"))
		}
	}
	for i := int64(-300); i <= 300; i++ {
		w.check1("bin", vInt(i))
		w.check1("oct", vInt(i))
		w.check1("hex", vInt(i))
		for d := int64(-3); d <= 1; d++ {
			w.check1("round", vInt(i), vInt(d))
			w.check1("truncate", vInt(i), vInt(d))
		}
	}
}

func (w *world) check1(name string, args ...val) {
	id, r := w.ev(name, args...)
	w.nullAndCrash(id, name, args, r)
}

// ---------------------------------------------------------------------------------------------
// Identity oracles (model free)

func (w *world) charLen(s val) (int64, bool) {
	_, r := w.ev("char_length", s)
	if r.ok && r.v.k == kInt {
		return r.v.i, true
	}
	return 0, false
}

func sameStr(r res, want string) bool { return r.ok && r.v.isStr() && r.v.b == want }

// padIdentity: CHAR_LENGTH(LPAD(s,n,p)) = n for n ≥ 0 unless p = '' and s is shorter; the result
// ends (LPAD) / starts (RPAD) with the kept part of s.
func (w *world) padIdentity(s val, n int64, p val, both bool) {
	for _, fn := range []string{"lpad", "rpad"} {
		id, r := w.ev(fn, s, vInt(n), p)
		w.nullAndCrash(id, fn, []val{s, vInt(n), p}, r)
		if !s.isStr() || !p.isStr() || !utf8.ValidString(s.b) || !utf8.ValidString(p.b) || n < 0 {
			continue
		}
		tag := "-"
		if nonASCII(s.b) || nonASCII(p.b) {
			tag = "pad_counts_bytes"
		}
		sl := int64(utf8.RuneCountInString(s.b))
		want := n
		if p.b == "" && sl < n {
			want = 0
		}
		if !r.ok || !r.v.isStr() {
			w.fail(id, tag, "%s(%q,%d,%q) = %s, expected a string", fn, s.b, n, p.b, r.obs)
			continue
		}
		got, ok := w.charLen(vText(r.v.b))
		if !ok || got != want {
			w.fail(id, tag, "CHAR_LENGTH(%s(%q,%d,%q)) = %d (ok=%v), expected %d", fn, s.b, n, p.b, got, ok, want)
		}
	}
}

func (w *world) inetIdentity(ip string) {
	id, r := w.ev("inet_aton", vText(ip))
	if !r.ok || r.v.k != kInt {
		w.fail(id, "-", "INET_ATON(%q) = %s", ip, r.obs)
		return
	}
	tag := "-"
	if r.v.i >= 1<<31 || r.v.i < 0 {
		tag = "inet_ntoa_int32_clamp"
	}
	id2, r2 := w.ev("inet_ntoa", r.v)
	if !sameStr(r2, ip) {
		w.fail(id2, tag, "INET_NTOA(INET_ATON(%q)) = %s", ip, r2.obs)
	}
}

// substrRest: a length that reaches beyond the end — up to the end of int64, where start+len
// overflows — takes the rest: SUBSTRING(s,p,huge) = SUBSTRING(s,p) (no panic; the repaired class
// substring_len_overflow_panics).
func (w *world) substrRest(s val, p, huge int64) {
	args := []val{s, vInt(p), vInt(huge)}
	id, r := w.ev("substring", args...)
	w.nullAndCrash(id, "substring", args, r)
	_, rest := w.ev("substring", s, vInt(p))
	if r.obs == "crash" || !s.isStr() || !utf8.ValidString(s.b) || huge < int64(utf8.RuneCountInString(s.b)) {
		return
	}
	if !(r.ok && rest.ok && r.v.isStr() && rest.v.isStr() && r.v.b == rest.v.b) {
		w.fail(id, "-", "SUBSTRING(%q,%d,%d) = %s ≠ SUBSTRING(%q,%d) = %s", s.b, p, huge, r.obs, s.b, p, rest.obs)
	}
}

// locateEmpty: nothing non-empty is found in the empty string, from whatever position, and
// LOCATE of the empty needle in it is 1 only for p = 1 (no panic; the repaired class locate_empty_str_pos_panics).
func (w *world) locateEmpty(sub val, p int64) {
	args := []val{sub, vText(""), vInt(p)}
	id, r := w.ev("locate", args...)
	w.nullAndCrash(id, "locate", args, r)
	if r.obs == "crash" || !sub.isStr() || !utf8.ValidString(sub.b) {
		return
	}
	want := int64(0)
	if sub.b == "" && p == 1 {
		want = 1
	}
	if !(r.ok && r.v.k == kInt && r.v.i == want) {
		w.fail(id, "-", "LOCATE(%q,'',%d) = %s, want %d", sub.b, p, r.obs, want)
	}
}

// locateIdentity: LOCATE agrees with INSTR and with SUBSTRING at the reported position.
func (w *world) locateIdentity(sub, s val, pos *val) {
	args := []val{sub, s}
	if pos != nil {
		args = append(args, *pos)
	}
	id, r := w.ev("locate", args...)
	w.nullAndCrash(id, "locate", args, r)
	if !sub.isStr() || !s.isStr() || !utf8.ValidString(sub.b) || !utf8.ValidString(s.b) || r.obs == "crash" {
		return
	}
	if pos != nil && pos.k != kInt {
		return
	}
	tag := "-"
	switch {
	case nonASCII(s.b):
		tag = "locate_counts_bytes"
	case upperASCII(s.b) || upperASCII(sub.b):
		tag = "locate_folds_case"
	}
	if !r.ok || r.v.k != kInt {
		w.fail(id, tag, "LOCATE%v = %s", args, r.obs)
		return
	}
	k := r.v.i
	subLen := int64(utf8.RuneCountInString(sub.b))
	if k > 0 {
		_, rs := w.ev("substring", s, vInt(k), vInt(subLen))
		if !sameStr(rs, sub.b) {
			w.fail(id, tag, "LOCATE(%q,%q,…) = %d but SUBSTRING(%q,%d,%d) = %s", sub.b, s.b, k, s.b, k, subLen, rs.obs)
			return
		}
	}
	if pos == nil || pos.i == 1 {
		_, ri := w.ev("instr", s, sub)
		if !(ri.ok && ri.v.k == kInt && ri.v.i == k) {
			w.fail(id, tag, "LOCATE(%q,%q) = %d but INSTR(%q,%q) = %s", sub.b, s.b, k, s.b, sub.b, ri.obs)
		}
	}
}

// baseIdentity: BIN/OCT/HEX agree with CONV, and CONV round-trips.
func (w *world) baseIdentity(n int64) {
	for _, fb := range []struct {
		fn   string
		base int64
	}{{"bin", 2}, {"oct", 8}, {"hex", 16}} {
		id, r := w.ev(fb.fn, vInt(n))
		_, rc := w.ev("conv", vInt(n), vInt(10), vInt(fb.base))
		tag := "-"
		if fb.fn == "bin" && n < 0 {
			tag = "bin_negative_drops_zeros"
		}
		if !(r.ok && rc.ok && r.v.isStr() && rc.v.isStr() && r.v.b == rc.v.b) {
			w.fail(id, tag, "%s(%d) = %s but CONV(%d,10,%d) = %s", fb.fn, n, r.obs, n, fb.base, rc.obs)
		}
	}
}

func (w *world) convRoundTrip(n int64, base int64) {
	dec := strconv.FormatInt(n, 10)
	tb, back := base, int64(10)
	if n < 0 {
		tb, back = -base, -10
	}
	id, r := w.ev("conv", vText(dec), vInt(10), vInt(tb))
	if !r.ok || !r.v.isStr() {
		w.fail(id, "-", "CONV(%s,10,%d) = %s", dec, tb, r.obs)
		return
	}
	fromB := base
	_, r2 := w.ev("conv", vText(r.v.b), vInt(fromB), vInt(back))
	if !sameStr(r2, dec) {
		w.fail(id, "-", "CONV(CONV(%s,10,%d),%d,%d) = %s", dec, tb, fromB, back, r2.obs)
	}
}

func (w *world) glIdentity(greatest bool, xs []int64) {
	fn := "least"
	if greatest {
		fn = "greatest"
	}
	args := make([]val, len(xs))
	want := xs[0]
	tag := "-"
	for i, x := range xs {
		args[i] = vInt(x)
		if (greatest && x > want) || (!greatest && x < want) {
			want = x
		}
		if x > 1<<53 || x < -(1<<53) {
			tag = "greatest_least_float_precision"
		}
	}
	id, r := w.ev(fn, args...)
	if !(r.ok && r.v.k == kInt && r.v.i == want) {
		w.fail(id, tag, "%s%v = %s, expected %d", fn, xs, r.obs, want)
	}
}

func pow10(k int64) (int64, bool) {
	if k > 18 {
		return 0, false
	}
	p := int64(1)
	for i := int64(0); i < k; i++ {
		p *= 10
	}
	return p, true
}

func (w *world) roundIdentity(n, d int64) {
	id, r := w.ev("round", vInt(n), vInt(d))
	id2, t := w.ev("truncate", vInt(n), vInt(d))
	_, fl := w.ev("floor", vInt(n))
	_, ce := w.ev("ceil", vInt(n))
	if !(fl.ok && fl.v.k == kInt && fl.v.i == n && ce.ok && ce.v.k == kInt && ce.v.i == n) {
		w.fail(id, "-", "FLOOR/CEIL(%d) = %s / %s", n, fl.obs, ce.obs)
	}
	if !(r.ok && r.v.k == kInt && t.ok && t.v.k == kInt) {
		w.fail(id, "-", "ROUND/TRUNCATE(%d,%d) = %s / %s", n, d, r.obs, t.obs)
		return
	}
	if n > 1<<62 || n < -(1<<62) {
		return // results may clamp to the BIGINT range
	}
	unit := int64(1)
	if d < 0 {
		p, ok := pow10(-d)
		if !ok {
			if r.v.i != 0 || t.v.i != 0 {
				w.fail(id, "-", "ROUND/TRUNCATE(%d,%d) = %d / %d, expected 0", n, d, r.v.i, t.v.i)
			}
			return
		}
		unit = p
	}
	abs := func(x int64) int64 {
		if x < 0 {
			return -x
		}
		return x
	}
	dr := abs(r.v.i - n)
	if r.v.i%unit != 0 || dr > unit/2 || (dr*2 == unit && abs(r.v.i) < abs(n)) {
		w.fail(id, "-", "ROUND(%d,%d) = %d is not the nearest multiple of %d (half away from zero)", n, d, r.v.i, unit)
	}
	dt := abs(t.v.i - n)
	if t.v.i%unit != 0 || dt >= unit || abs(t.v.i) > abs(n) {
		w.fail(id2, "-", "TRUNCATE(%d,%d) = %d is not %d truncated toward zero to a multiple of %d", n, d, t.v.i, n, unit)
	}
}

func identities(w *world, g *gen, n int) {
	T, I := vText, vInt
	for it := 0; it < n; it++ {
		s := g.str(false)
		t := g.str(false)
		sv, tv := T(s), T(t)
		switch it % 12 {
		case 0: // length of a concatenation
			idc, c := w.ev("concat", sv, tv)
			if !sameStr(c, s+t) {
				w.fail(idc, "-", "CONCAT(%q,%q) = %s", s, t, c.obs)
				continue
			}
			for _, fn := range []string{"char_length", "length"} {
				_, ls := w.ev(fn, sv)
				_, lt := w.ev(fn, tv)
				_, lc := w.ev(fn, c.v)
				if !(ls.ok && lt.ok && lc.ok && ls.v.k == kInt && lc.v.i == ls.v.i+lt.v.i) {
					w.fail(idc, "-", "%s(CONCAT(%q,%q)) = %s ≠ %s + %s", fn, s, t, lc.obs, ls.obs, lt.obs)
				}
			}
		case 1: // split: s = LEFT(s,k) ++ SUBSTRING(s,k+1) = SUBSTRING(s,1,k) ++ RIGHT(s, len-k)
			k := int64(g.r.Intn(utf8.RuneCountInString(s) + 2))
			idl, l := w.ev("left", sv, I(k))
			_, rest := w.ev("substring", sv, I(k+1))
			if !(l.ok && rest.ok && l.v.isStr() && rest.v.isStr() && l.v.b+rest.v.b == s) {
				w.fail(idl, "-", "LEFT(%q,%d) ++ SUBSTRING(%q,%d) = %s ++ %s", s, k, s, k+1, l.obs, rest.obs)
			}
			// a length up to the end of int64 takes the rest (start+len must not overflow)
			w.substrRest(sv, k+1, math.MaxInt64-int64(g.r.Intn(3)))
			if g.r.Chance(1, 4) {
				w.substrRest(sv, -(k + 1), hx.Pick(g.r, bigInts))
				if caseless(t) {
					w.locateEmpty(tv, int64(g.r.Range(-1, 4)))
				}
			}
			cl, _ := w.charLen(sv)
			if k <= cl {
				ids, pre := w.ev("substring", sv, I(1), I(k))
				_, suf := w.ev("right", sv, I(cl-k))
				if !(pre.ok && suf.ok && pre.v.isStr() && suf.v.isStr() && pre.v.b+suf.v.b == s) {
					w.fail(ids, "-", "SUBSTRING(%q,1,%d) ++ RIGHT(%q,%d) = %s ++ %s", s, k, s, cl-k, pre.obs, suf.obs)
				}
				// negative position counts from the end
				if cl-k > 0 {
					_, neg := w.ev("substring", sv, I(-(cl - k)))
					if !(neg.ok && suf.ok && neg.v.b == suf.v.b) {
						w.fail(ids, "-", "SUBSTRING(%q,%d) = %s ≠ RIGHT(%q,%d) = %s", s, -(cl - k), neg.obs, s, cl-k, suf.obs)
					}
				}
			}
		case 2: // REVERSE is an involution preserving the length
			idr, r1 := w.ev("reverse", sv)
			if !r1.ok || !r1.v.isStr() {
				w.fail(idr, "-", "REVERSE(%q) = %s", s, r1.obs)
				continue
			}
			_, r2 := w.ev("reverse", r1.v)
			if !sameStr(r2, s) {
				w.fail(idr, "-", "REVERSE(REVERSE(%q)) = %s", s, r2.obs)
			}
			a, _ := w.charLen(sv)
			b, _ := w.charLen(r1.v)
			if a != b {
				w.fail(idr, "-", "CHAR_LENGTH(REVERSE(%q)) = %d ≠ %d", s, b, a)
			}
		case 3: // inverse pairs on arbitrary bytes
			raw := g.str(true)
			if g.r.Chance(1, 8) {
				raw = strings.Repeat(raw+"k", g.r.Range(8, 30))
			}
			for _, arg := range []val{vBlob(raw), sv} {
				idh, h := w.ev("hex", arg)
				if h.ok && h.v.isStr() {
					_, u := w.ev("unhex", h.v)
					if !sameStr(u, arg.b) {
						w.fail(idh, "-", "UNHEX(HEX(%q)) = %s", arg.b, u.obs)
					}
				} else {
					w.fail(idh, "-", "HEX(%q) = %s", arg.b, h.obs)
				}
				idb, b := w.ev("to_base64", arg)
				if b.ok && b.v.isStr() {
					_, u := w.ev("from_base64", b.v)
					if !sameStr(u, arg.b) {
						w.fail(idb, "-", "FROM_BASE64(TO_BASE64(%q)) = %s", arg.b, u.obs)
					}
				} else {
					w.fail(idb, "-", "TO_BASE64(%q) = %s", arg.b, b.obs)
				}
			}
		case 4:
			w.padIdentity(sv, int64(g.r.Intn(10)), T(g.str(false)), true)
		case 5:
			ip := fmt.Sprintf("%d.%d.%d.%d", g.r.Intn(256), g.r.Intn(256), g.r.Intn(256), g.r.Intn(256))
			if g.r.Chance(1, 3) {
				ip = fmt.Sprintf("%d.%d.%d.%d", g.r.Intn(128), g.r.Intn(256), g.r.Intn(256), g.r.Intn(256))
			}
			w.inetIdentity(ip)
		case 6:
			if !caseless(s) {
				continue
			}
			sub := g.related(s)
			if !caseless(sub) {
				continue
			}
			if g.r.Chance(1, 3) {
				p := I(int64(g.r.Intn(5)))
				w.locateIdentity(T(sub), sv, &p)
			} else {
				w.locateIdentity(T(sub), sv, nil)
			}
		case 7:
			nv := g.anyInt()
			if nv.k != kInt {
				continue
			}
			w.baseIdentity(nv.i)
			w.convRoundTrip(nv.i, int64(g.r.Range(2, 36)))
		case 8:
			nv := g.anyInt()
			if nv.k != kInt {
				continue
			}
			w.roundIdentity(nv.i, -int64(g.r.Intn(21))+int64(g.r.Intn(3)))
			if nv.i != math.MinInt64 {
				ida, ab := w.ev("abs", nv)
				_, sg := w.ev("sign", nv)
				if !(ab.ok && sg.ok && ab.v.k == kInt && ab.v.i >= 0 && ab.v.i == sg.v.i*nv.i) {
					w.fail(ida, "-", "ABS(%d) = %s, SIGN = %s", nv.i, ab.obs, sg.obs)
				}
			}
		case 9:
			k := g.r.Range(1, 3)
			xs := make([]int64, k)
			for i := range xs {
				xs[i] = g.boundedInt().i
			}
			w.glIdentity(g.r.Bool(), xs)
		case 10: // case mapping, REPEAT, REPLACE, TRIM
			if !caseless(s) {
				continue
			}
			idu, u := w.ev("upper", sv)
			_, l := w.ev("lower", sv)
			if u.ok && l.ok && u.v.isStr() && l.v.isStr() {
				_, ul := w.ev("upper", l.v)
				_, lu := w.ev("lower", u.v)
				if !sameStr(ul, u.v.b) || !sameStr(lu, l.v.b) || len(u.v.b) != len(s) {
					w.fail(idu, "-", "UPPER/LOWER(%q): %s %s %s %s", s, u.obs, l.obs, ul.obs, lu.obs)
				}
			} else {
				w.fail(idu, "-", "UPPER/LOWER(%q) = %s / %s", s, u.obs, l.obs)
			}
			k := int64(g.r.Intn(4))
			idr, rp := w.ev("repeat", sv, I(k))
			if !sameStr(rp, strings.Repeat(s, int(k))) {
				w.fail(idr, "-", "REPEAT(%q,%d) = %s", s, k, rp.obs)
			}
			idp, same := w.ev("replace", sv, tv, tv)
			if !sameStr(same, s) {
				w.fail(idp, "-", "REPLACE(%q,%q,%q) = %s", s, t, t, same.obs)
			}
		case 11: // TRIM removes exactly the added pattern copies; LTRIM/RTRIM remove spaces
			core := strings.Trim(s, " ")
			idt, tr := w.ev("trim_both", T("  "+core+"   "), T(" "))
			_, lt := w.ev("ltrim", T("  "+core))
			_, rt := w.ev("rtrim", T(core+"  "))
			if !sameStr(tr, core) || !sameStr(lt, core) || !sameStr(rt, core) {
				w.fail(idt, "-", "TRIM/LTRIM/RTRIM around %q = %s / %s / %s", core, tr.obs, lt.obs, rt.obs)
			}
			if t != "" && !strings.HasPrefix(s, t) && !strings.HasSuffix(s, t) && !strings.HasPrefix(t+s, t+t) && !strings.HasSuffix(s+t, t+t) {
				idq, q := w.ev("trim_both", T(t+t+s+t), tv)
				if q.ok && q.v.isStr() && len(q.v.b) > len(s) {
					w.fail(idq, "-", "TRIM(BOTH %q FROM %q) = %s keeps a copy of the pattern", t, t+t+s+t, q.obs)
				}
			}
		}
	}
}

// ---------------------------------------------------------------------------------------------
// Facts

func extract(a hx.ExtractArgs) error {
	lf := hx.NewLeanFile("Gms.Generated.C34", "sql/expression/function/registry.go", "rpad_lpad.go", "tobase64_frombase64.go", "conv.go",
		"inet_convert.go", "locate.go", "substring.go", "sql/types/decimal.go", "run-time dumps of HEX/UPPER/LOWER/TO_BASE64")

	// 1. registry: name ↦ (arity class, constructor) for every entry of `BuiltIns`
	src, err := hx.ParseSrc(a.Repo, "sql/expression/function/registry.go")
	if err != nil {
		return err
	}
	init, err := src.PkgVarInit("BuiltIns")
	if err != nil {
		return err
	}
	cl, ok := init.(*ast.CompositeLit)
	if !ok {
		return fmt.Errorf("BuiltIns is not a composite literal")
	}
	var rows []string
	for _, el := range cl.Elts {
		if ce, ok := el.(*ast.CallExpr); ok && len(ce.Args) == 2 {
			// sql.NewFunction0("name", Ctor)
			bl, ok1 := ce.Args[0].(*ast.BasicLit)
			fs, ok2 := ce.Fun.(*ast.SelectorExpr)
			if !ok1 || !ok2 || bl.Kind != token.STRING {
				return fmt.Errorf("BuiltIns call element of unexpected shape: %s", src.Text(el))
			}
			nm, _ := strconv.Unquote(bl.Value)
			rows = append(rows, fmt.Sprintf("(%s, %s, %s)", hx.LeanString(nm), hx.LeanString(fs.Sel.Name), hx.LeanString(src.Text(ce.Args[1]))))
			continue
		}
		c, ok := el.(*ast.CompositeLit)
		if !ok {
			return fmt.Errorf("BuiltIns element is not a composite literal: %s", src.Text(el))
		}
		sel, ok := c.Type.(*ast.SelectorExpr)
		if !ok {
			return fmt.Errorf("BuiltIns element type: %s", src.Text(c.Type))
		}
		name, ctor := "", ""
		for _, kv := range c.Elts {
			kve, ok := kv.(*ast.KeyValueExpr)
			if !ok {
				continue
			}
			switch src.Text(kve.Key) {
			case "Name":
				if bl, ok := kve.Value.(*ast.BasicLit); ok && bl.Kind == token.STRING {
					name, _ = strconv.Unquote(bl.Value)
				}
			case "Fn":
				if id, ok := kve.Value.(*ast.Ident); ok {
					ctor = id.Name
				} else {
					ctor = "<closure>"
				}
			}
		}
		if name == "" {
			return fmt.Errorf("BuiltIns element without a literal Name: %s", src.Text(el))
		}
		rows = append(rows, fmt.Sprintf("(%s, %s, %s)", hx.LeanString(name), hx.LeanString(sel.Sel.Name), hx.LeanString(ctor)))
	}
	if len(rows) < 100 {
		return fmt.Errorf("only %d registry entries found", len(rows))
	}
	lf.Comment("registry.go: (SQL name, sql.FunctionK arity class, constructor)")
	lf.Raw("def registry : List (String × String × String) := [\n  " + strings.Join(rows, ",\n  ") + "]\n")

	// 2. constants
	intConst := func(file, name string) (uint64, error) {
		s, err := hx.ParseSrc(a.Repo, file)
		if err != nil {
			return 0, err
		}
		e, err := s.PkgVarInit(name)
		if err != nil {
			return 0, err
		}
		bl, ok := e.(*ast.BasicLit)
		if !ok || bl.Kind != token.INT {
			return 0, fmt.Errorf("%s is not an integer literal", name)
		}
		return strconv.ParseUint(bl.Value, 10, 64)
	}
	mp, err := intConst("sql/types/decimal.go", "DecimalTypeMaxPrecision")
	if err != nil {
		return err
	}
	ms, err := intConst("sql/types/decimal.go", "DecimalTypeMaxScale")
	if err != nil {
		return err
	}
	lf.DefNat("decimalMaxPrecision", mp)
	lf.DefNat("decimalMaxScale", ms)

	// integer literals compared in a function body, as sorted distinct values
	lits := func(file, recv, fn string) ([]uint64, *hx.Src, *ast.FuncDecl, error) {
		s, err := hx.ParseSrc(a.Repo, file)
		if err != nil {
			return nil, nil, nil, err
		}
		fd, err := s.Func(recv, fn)
		if err != nil {
			return nil, nil, nil, err
		}
		set := map[uint64]bool{}
		ast.Inspect(fd.Body, func(n ast.Node) bool {
			if bl, ok := n.(*ast.BasicLit); ok && bl.Kind == token.INT {
				if v, err := strconv.ParseUint(bl.Value, 0, 64); err == nil {
					set[v] = true
				}
			}
			return true
		})
		var out []uint64
		for v := range set {
			out = append(out, v)
		}
		sort.Slice(out, func(i, j int) bool { return out[i] < out[j] })
		return out, s, fd, nil
	}
	b64, _, _, err := lits("sql/expression/function/tobase64_frombase64.go", "ToBase64", "Eval")
	if err != nil {
		return err
	}
	lf.Comment("integer literals of ToBase64.Eval (line length)")
	lf.DefNatList("toBase64Literals", b64)
	cf, _, _, err := lits("sql/expression/function/conv.go", "", "convertFromBase")
	if err != nil {
		return err
	}
	lf.Comment("integer literals of convertFromBase / convertToBase (base bounds, bit size)")
	lf.DefNatList("convFromLiterals", cf)
	ct, _, _, err := lits("sql/expression/function/conv.go", "", "convertToBase")
	if err != nil {
		return err
	}
	lf.DefNatList("convToLiterals", ct)

	// padString: which length the truncation test uses
	_, ps, pfd, err := lits("sql/expression/function/rpad_lpad.go", "", "padString")
	if err != nil {
		return err
	}
	var conds []string
	ast.Inspect(pfd.Body, func(n ast.Node) bool {
		if is, ok := n.(*ast.IfStmt); ok {
			conds = append(conds, ps.Text(is.Cond))
		}
		return true
	})
	lf.Comment("padString: the conditions of its if statements, in order")
	lf.DefStringList("padStringConds", conds)

	// InetNtoa.Eval: the numeric type its argument is converted to
	ins, err := hx.ParseSrc(a.Repo, "sql/expression/function/inet_convert.go")
	if err != nil {
		return err
	}
	ifd, err := ins.Func("InetNtoa", "Eval")
	if err != nil {
		return err
	}
	var convTypes []string
	ast.Inspect(ifd.Body, func(n ast.Node) bool {
		if ce, ok := n.(*ast.CallExpr); ok {
			if se, ok := ce.Fun.(*ast.SelectorExpr); ok && se.Sel.Name == "Convert" {
				convTypes = append(convTypes, ins.Text(se.X))
			}
		}
		return true
	})
	lf.Comment("InetNtoa.Eval: receivers of its Convert calls")
	lf.DefStringList("inetNtoaConvertTypes", convTypes)

	// Locate.Eval / Substring.Eval: the shape of the bounds handling (repaired by the `fix:` commit
	// for the regions locate_empty_str_pos_panics and substring_len_overflow_panics)
	los, err := hx.ParseSrc(a.Repo, "sql/expression/function/locate.go")
	if err != nil {
		return err
	}
	lfd, err := los.Func("Locate", "Eval")
	if err != nil {
		return err
	}
	var locConds, locSlices []string
	nSwitch := 0
	ast.Inspect(lfd.Body, func(n ast.Node) bool {
		switch x := n.(type) {
		case *ast.SwitchStmt:
			if x.Tag == nil && x.Init == nil {
				nSwitch++
				for _, st := range x.Body.List {
					if cc, ok := st.(*ast.CaseClause); ok {
						var alts []string
						for _, e := range cc.List {
							alts = append(alts, los.Text(e))
						}
						if cc.List == nil {
							alts = []string{"default"}
						}
						locConds = append(locConds, strings.Join(alts, " , "))
					}
				}
			}
		case *ast.SliceExpr:
			locSlices = append(locSlices, los.Text(x))
		}
		return true
	})
	if nSwitch != 1 {
		return fmt.Errorf("Locate.Eval: expected exactly one tagless switch (the edge cases), found %d", nSwitch)
	}
	lf.Comment("Locate.Eval: the case conditions of its edge-case switch, in order, and its slice expressions")
	lf.DefStringList("locateSwitchConds", locConds)
	lf.DefStringList("locateSliceExprs", locSlices)
	sus, err := hx.ParseSrc(a.Repo, "sql/expression/function/substring.go")
	if err != nil {
		return err
	}
	sfd, err := sus.Func("Substring", "Eval")
	if err != nil {
		return err
	}
	var subConds, subAssigns, subSlices []string
	ast.Inspect(sfd.Body, func(n ast.Node) bool {
		switch x := n.(type) {
		case *ast.IfStmt:
			if c := sus.Text(x.Cond); strings.Contains(c, "runeCount") {
				subConds = append(subConds, c)
				for _, st := range x.Body.List {
					if as, ok := st.(*ast.AssignStmt); ok {
						subAssigns = append(subAssigns, sus.Text(as))
					}
				}
			}
		case *ast.SliceExpr:
			subSlices = append(subSlices, sus.Text(x))
		}
		return true
	})
	if len(subConds) == 0 || len(subSlices) == 0 {
		return fmt.Errorf("Substring.Eval: no condition on runeCount / no slice expression found")
	}
	lf.Comment("Substring.Eval: its if conditions on runeCount, in order; the assignments they guard (the length clamp); its slice expressions")
	lf.DefStringList("substringRuneCountConds", subConds)
	lf.DefStringList("substringClampAssigns", subAssigns)
	lf.DefStringList("substringSliceExprs", subSlices)

	// 3. run-time dumps from the freshly compiled functions
	e := eng.New("d")
	w := &world{ctx: e.Ctx(), reg: map[string]sql.Function{}}
	for _, f := range function.BuiltIns {
		w.reg[strings.ToLower(f.FunctionName())] = f
	}
	str1 := func(name string, arg val) ([]uint64, error) {
		r := w.evalRaw(name, []val{arg})
		if !r.ok || !r.v.isStr() {
			return nil, fmt.Errorf("%s(%s) = %s", name, arg.sexp(), r.obs)
		}
		o := make([]uint64, len(r.v.b))
		for i := 0; i < len(r.v.b); i++ {
			o[i] = uint64(r.v.b[i])
		}
		return o, nil
	}
	natList := func(xs []uint64) string {
		p := make([]string, len(xs))
		for i, x := range xs {
			p[i] = strconv.FormatUint(x, 10)
		}
		return "[" + strings.Join(p, ", ") + "]"
	}
	var hexRows []string
	for b := 0; b < 256; b++ {
		o, err := str1("hex", vBlob(string([]byte{byte(b)})))
		if err != nil {
			return err
		}
		hexRows = append(hexRows, natList(o))
	}
	lf.Comment("HEX(x) for every one-byte blob x = 0..255")
	lf.Raw("def hexTable : List (List Nat) := [" + strings.Join(hexRows, ", ") + "]\n")
	var up, lo []uint64
	for b := 0; b < 128; b++ {
		o, err := str1("upper", vText(string([]byte{byte(b)})))
		if err != nil || len(o) != 1 {
			return fmt.Errorf("UPPER of byte %d: %v %v", b, o, err)
		}
		up = append(up, o[0])
		o, err = str1("lower", vText(string([]byte{byte(b)})))
		if err != nil || len(o) != 1 {
			return fmt.Errorf("LOWER of byte %d: %v %v", b, o, err)
		}
		lo = append(lo, o[0])
	}
	lf.Comment("UPPER / LOWER of every one-byte ASCII text")
	lf.DefNatList("upperAscii", up)
	lf.DefNatList("lowerAscii", lo)
	var alpha []uint64
	for v := 0; v < 64; v++ {
		o, err := str1("to_base64", vBlob(string([]byte{0, 0, byte(v)})))
		if err != nil || len(o) != 4 {
			return fmt.Errorf("TO_BASE64 of [0 0 %d]: %v %v", v, o, err)
		}
		alpha = append(alpha, o[3])
	}
	lf.Comment("4th character of TO_BASE64([0,0,v]) for v = 0..63: the alphabet")
	lf.DefNatList("base64Alphabet", alpha)
	pad1, err := str1("to_base64", vBlob("a"))
	if err != nil {
		return err
	}
	lf.DefNatList("base64OfA", pad1)

	// 4. the state of the function nodes (facts_nodes.go)
	if err := extractNodes(a, lf, w); err != nil {
		return err
	}
	return lf.Write(a.Out)
}
