package main

import (
	"fmt"
	"unicode/utf8"

	"github.com/dolthub/vitess/go/sqltypes"

	"github.com/dolthub/go-mysql-server/sql"
	"github.com/dolthub/go-mysql-server/sql/types"
	"github.com/dolthub/go-mysql-server/verifharness/hx/eng"
)

func main() {
	// latin1 table
	fmt.Print("latin1: ")
	for b := 0x80; b < 0xa0; b++ {
		d, ok := sql.CharacterSet_latin1.Encoder().Decode([]byte{byte(b)})
		if !ok {
			fmt.Print("0, ")
			continue
		}
		r, _ := utf8.DecodeRune(d)
		fmt.Printf("0x%X, ", r)
	}
	fmt.Println()
	bad := 0
	for b := 0; b < 256; b++ {
		if b >= 0x80 && b < 0xa0 {
			continue
		}
		d, ok := sql.CharacterSet_latin1.Encoder().Decode([]byte{byte(b)})
		r, _ := utf8.DecodeRune(d)
		if !ok || int(r) != b {
			bad++
			fmt.Printf("latin1 byte %x -> %v %x\n", b, ok, r)
		}
	}
	e := eng.New("d")
	ctx := e.Ctx()
	for _, res := range []interface{}{"utf8mb4", "latin1", "utf16", "utf32", "binary", nil, "utf8mb3"} {
		err := ctx.SetSessionVariable(ctx, "character_set_results", res)
		raw := ctx.GetCharacterSetResults()
		fmt.Printf("results=%v err=%v -> id=%d %v maxlen=%d\n", res, err, raw, raw.Name(), raw.MaxLength())
		for _, coll := range []sql.CollationID{sql.Collation_Default, sql.Collation_latin1_swedish_ci, sql.Collation_utf16_general_ci, sql.Collation_utf32_general_ci, sql.Collation_utf8mb3_general_ci} {
			st, _ := types.CreateSetType([]string{"r", "w", "x"}, coll)
			v, err := st.SQL(ctx, nil, uint64(7))
			fmt.Printf("  %-20s set: %d/%d err=%v", coll.Name(), len(v.Raw()), st.MaxTextResponseByteLength(ctx), err != nil)
			et, _ := types.CreateEnumType([]string{"é", "ab"}, coll)
			v, err = et.SQL(ctx, nil, uint16(1))
			fmt.Printf(" enum: %d/%d err=%v", len(v.Raw()), et.MaxTextResponseByteLength(ctx), err != nil)
			vt, _ := types.CreateString(sqltypes.VarChar, 3, coll)
			v, err = vt.SQL(ctx, nil, "éaé")
			fmt.Printf(" varchar(3): %d/%d err=%v", len(v.Raw()), vt.MaxTextResponseByteLength(ctx), err != nil)
			tt := types.CreateTinyText(coll)
			v, err = tt.SQL(ctx, nil, "éaé")
			fmt.Printf(" tinytext: %d/%d err=%v\n", len(v.Raw()), tt.MaxTextResponseByteLength(ctx), err != nil)
		}
	}
	// DDL
	for _, q := range []string{
		"CREATE TABLE t1 (id INT PRIMARY KEY, v SET('r','w','x') CHARACTER SET utf32)",
		"CREATE TABLE t2 (id INT PRIMARY KEY, v ENUM('é','ab') CHARACTER SET latin1)",
		"CREATE TABLE t3 (id INT PRIMARY KEY, v VARCHAR(3) CHARACTER SET utf16)",
		"CREATE TABLE t4 (id INT PRIMARY KEY, v TINYTEXT CHARACTER SET utf8mb3)",
		"INSERT INTO t1 VALUES (1,'r,w,x')", "INSERT INTO t2 VALUES (1,'é')", "INSERT INTO t3 VALUES (1,'éaé')", "INSERT INTO t4 VALUES (1,'éaé')",
		"SHOW CREATE TABLE t1",
		"SET character_set_results = NULL", "SELECT @@character_set_results",
	} {
		r := e.Query(ctx, q)
		fmt.Println(q, "->", r.Class(), r.Err, r.Rows)
	}
}
