// C44 — character-set / collation variables: validators, the coupled second assignment of
// setSystemVar, catalog reads of character_set_database / collation_database, SET NAMES.
//
// Facts: the names sql.ParseCharacterSet / sql.ParseCollation accept and what the coupling derives
// from them (character set ↦ default collation, collation ↦ character set) are dumped by running the
// freshly compiled code over every key found in the source (characterSetStringToID literal,
// collationStringToID assignments, the two public iterators) and over "".
// Stream `coupled`: histories over the pairs in every scope, read back in the issuing session,
// another session and a new session.
package main

import (
	"fmt"
	"go/ast"
	"go/token"
	"reflect"
	"runtime"
	"sort"
	"strconv"
	"strings"

	"github.com/dolthub/go-mysql-server/sql"
	"github.com/dolthub/go-mysql-server/verifharness/hx"
	"github.com/dolthub/go-mysql-server/verifharness/hx/eng"
)

// pairOf is what the property demands of the four coupled variables (MySQL keeps each pair in step
// in the scope that is being assigned); the go/ast fact `coupledVars` pins that the executor's
// switch lists exactly these names.
var pairOf = map[string]string{
	"character_set_connection": "collation_connection",
	"collation_connection":     "character_set_connection",
	"character_set_server":     "collation_server",
	"collation_server":         "character_set_server",
}

// catalogVars: SESSION-scope reads are answered from the current database.
var catalogVars = map[string]bool{"character_set_database": true, "collation_database": true}

// namesVars: what SET NAMES assigns, in order.
var namesVars = []string{"character_set_client", "character_set_connection", "character_set_results"}

type kv struct{ k, v string }

type csTables struct {
	charsetDefault   []kv // accepted character-set name (lower case, "" included) -> name of its default collation
	collationCharset []kv // accepted collation name (lower case, "" included) -> name of its character set
}

// notifyKind names the NotifyChanged validator of a variable: "charset" | "collation" | "other" | "".
func notifyKind(m *sql.MysqlSystemVariable) string {
	if m.NotifyChanged == nil {
		return ""
	}
	f := runtime.FuncForPC(reflect.ValueOf(m.NotifyChanged).Pointer())
	if f == nil {
		return "other"
	}
	switch n := f.Name(); {
	case strings.HasSuffix(n, "/sql/variables.validateCharacterSet"):
		return "charset"
	case strings.HasSuffix(n, "/sql/variables.validateCollation"):
		return "collation"
	}
	return "other"
}

// sourceKeys collects the candidate names from the source: keys of the characterSetStringToID
// literal and string indices of `collationStringToID["…"] = …` assignments.
func sourceKeys(repo string) (charsets, collations []string, files []string, err error) {
	cs, err := hx.ParseSrc(repo, "sql/charactersets.go")
	if err != nil {
		return nil, nil, nil, err
	}
	init, err := cs.PkgVarInit("characterSetStringToID")
	if err != nil {
		return nil, nil, nil, err
	}
	lit, ok := init.(*ast.CompositeLit)
	if !ok {
		return nil, nil, nil, fmt.Errorf("characterSetStringToID is not a composite literal")
	}
	for _, el := range lit.Elts {
		kvx, ok := el.(*ast.KeyValueExpr)
		if !ok {
			return nil, nil, nil, fmt.Errorf("characterSetStringToID: unexpected element")
		}
		bl, ok := kvx.Key.(*ast.BasicLit)
		if !ok || bl.Kind != token.STRING {
			return nil, nil, nil, fmt.Errorf("characterSetStringToID: key is not a string literal")
		}
		s, _ := strconv.Unquote(bl.Value)
		charsets = append(charsets, s)
	}
	co, err := hx.ParseSrc(repo, "sql/collations.go")
	if err != nil {
		return nil, nil, nil, err
	}
	ast.Inspect(co.File, func(n ast.Node) bool {
		as, ok := n.(*ast.AssignStmt)
		if !ok || len(as.Lhs) != 1 {
			return true
		}
		ix, ok := as.Lhs[0].(*ast.IndexExpr)
		if !ok {
			return true
		}
		if id, ok := ix.X.(*ast.Ident); !ok || id.Name != "collationStringToID" {
			return true
		}
		if bl, ok := ix.Index.(*ast.BasicLit); ok && bl.Kind == token.STRING {
			s, _ := strconv.Unquote(bl.Value)
			collations = append(collations, s)
		}
		return true
	})
	return charsets, collations, []string{cs.Path, co.Path}, nil
}

// dumpCsTables runs the compiled ParseCharacterSet / ParseCollation over every candidate.
func dumpCsTables(repo string) (*csTables, []string, error) {
	cands, colCands, files, err := sourceKeys(repo)
	if err != nil {
		return nil, nil, err
	}
	it := sql.NewCharacterSetsIterator()
	for c, ok := it.Next(); ok; c, ok = it.Next() {
		cands = append(cands, c.Name)
	}
	ci := sql.NewCollationsIterator()
	for c, ok := ci.Next(); ok; c, ok = ci.Next() {
		colCands = append(colCands, c.Name)
	}
	cands = append(cands, "")
	colCands = append(colCands, "")
	t := &csTables{}
	seen := map[string]bool{}
	for _, c := range cands {
		k := strings.ToLower(c)
		if seen[k] {
			continue
		}
		seen[k] = true
		id, err := sql.ParseCharacterSet(k)
		if err != nil {
			continue
		}
		t.charsetDefault = append(t.charsetDefault, kv{k, id.DefaultCollation().Name()})
	}
	seen = map[string]bool{}
	for _, c := range colCands {
		k := strings.ToLower(c)
		if seen[k] {
			continue
		}
		seen[k] = true
		id, err := sql.ParseCollation("", k, false)
		if err != nil {
			continue
		}
		t.collationCharset = append(t.collationCharset, kv{k, id.CharacterSet().Name()})
	}
	sort.Slice(t.charsetDefault, func(i, j int) bool { return t.charsetDefault[i].k < t.charsetDefault[j].k })
	sort.Slice(t.collationCharset, func(i, j int) bool { return t.collationCharset[i].k < t.collationCharset[j].k })
	if len(t.charsetDefault) < 10 || len(t.collationCharset) < 50 {
		return nil, nil, fmt.Errorf("character-set tables too small: %d / %d", len(t.charsetDefault), len(t.collationCharset))
	}
	return t, files, nil
}

func leanKvList(xs []kv) string {
	var b strings.Builder
	b.WriteString("[\n")
	for i, x := range xs {
		sep := ","
		if i == len(xs)-1 {
			sep = ""
		}
		fmt.Fprintf(&b, "  (%s, %s)%s\n", hx.LeanString(x.k), hx.LeanString(x.v), sep)
	}
	b.WriteString("]")
	return b.String()
}

// catalogValues reads what a fresh session sees for the catalog variables (current database "d").
func catalogValues() (map[string]string, error) {
	e := eng.New("d")
	w := newWorld(e, nil)
	w.newSession(1)
	out := map[string]string{}
	for _, n := range []string{"character_set_database", "collation_database"} {
		r := w.query(1, "SELECT @@session."+n)
		if r.Err != nil || r.Panic != "" || len(r.Rows) != 1 {
			return nil, fmt.Errorf("cannot read @@session.%s: %v %s", n, r.Err, r.Panic)
		}
		out[n] = r.Rows[0][0]
	}
	return out, nil
}

// ---------------------------------------------------------------------------------------------
// Generators.

func strLit(s string) rhs { return rhs{kind: 'l', v: sv(s)} }

func namesStmt(sid int, x rhs) stmt {
	s := stmt{kind: "names", sid: sid, nrhs: x}
	for _, n := range namesVars {
		s.asgs = append(s.asgs, asg{t: sessionRef(n), r: x})
	}
	return s
}

// csPool: values for a character-set / collation variable: accepted names in mixed case, aliases,
// "", unknown names, NULL, DEFAULT-like wrong types.
func csPool(r *hx.Rand, t *csTables, kind string) []val {
	src := t.charsetDefault
	if kind == "collation" {
		src = t.collationCharset
	}
	var p []val
	for i := 0; i < 6; i++ {
		p = append(p, sv(mixCase(r, hx.Pick(r, src).k)))
	}
	if kind == "charset" {
		p = append(p, sv("latin1"), sv("utf8"), sv("UTF8MB4"), sv("binary"), sv("utf8mb3"))
	} else {
		p = append(p, sv("latin1_swedish_ci"), sv("utf8_bin"), sv("UTF8MB4_0900_AI_CI"), sv("binary"), sv("utf8mb4_bin"))
	}
	p = append(p, sv(""), sv("nosuch"), sv(hx.Pick(r, src).k+" "), val{k: 'n'}, iv(5), bv(true))
	return p
}

// csPoolFor: csPool without integer literals for the names whose integer literals the planbuilder
// rewrites (collation ids).
func csPoolFor(r *hx.Rand, t *csTables, v *varInfo) []val {
	p := csPool(r, t, v.Allowed)
	if !intSpecial[v.Name] {
		return p
	}
	q := p[:0]
	for _, x := range p {
		if x.k != 'i' && x.k != 'u' {
			q = append(q, x)
		}
	}
	return q
}

// readPair: the pair (and anything else of interest) in session and global scope.
func readAll(sid int, names []string) stmt {
	var ts []target
	for _, n := range names {
		ts = append(ts, sessionRef(n), globalRef(n))
	}
	return getStmt(sid, ts...)
}

var csFamily = []string{"character_set_server", "collation_server", "character_set_connection", "collation_connection",
	"character_set_database", "collation_database", "character_set_client", "character_set_results"}

// coupledHistory: SETs on the character-set family in session 1 (all scopes, SET NAMES, DEFAULT,
// @@x right-hand sides), each followed by a read of the touched pair in session 1 and session 2;
// at the end a new session 3 reads everything, and so do 1 and 2 with explicit @@session.
func coupledHistory(r *hx.Rand, reg *registry, t *csTables, steps int) []stmt {
	h := []stmt{{kind: "new", sid: 1}, {kind: "new", sid: 2}}
	fam := []string{}
	for _, n := range csFamily {
		if v, ok := reg.byName[n]; ok && !v.Special {
			fam = append(fam, n)
		}
	}
	if len(fam) == 0 {
		return h
	}
	for i := 0; i < steps; i++ {
		sid := 1
		if r.Chance(1, 5) {
			sid = 2
		}
		if r.Chance(1, 6) {
			var x rhs
			switch r.Intn(5) {
			case 0:
				x = rhs{kind: 'd'}
			case 1:
				x = strLit("nosuch")
			default:
				x = strLit(mixCase(r, hx.Pick(r, t.charsetDefault).k))
			}
			h = append(h, namesStmt(sid, x))
			h = append(h, readAll(1, []string{"character_set_client", "character_set_connection", "collation_connection", "character_set_results"}))
			h = append(h, readAll(2, []string{"character_set_connection", "collation_connection"}))
			continue
		}
		n := hx.Pick(r, fam)
		if r.Chance(2, 3) { // the coupled four carry the weight
			n = hx.Pick(r, []string{"character_set_server", "collation_server", "character_set_connection", "collation_connection"})
		}
		v := reg.byName[n]
		if v == nil || v.Special {
			continue
		}
		scope := hx.Pick(r, []string{"session", "session", "global", "global", "global", "persist", "persistonly"})
		tg := target{ref: sysRef{scope: scope, explicit: r.Chance(1, 4), name: n}}
		var x rhs
		switch q := r.Intn(10); {
		case q < 7:
			x = rhs{kind: 'l', v: hx.Pick(r, csPoolFor(r, t, v))}
		case q < 8:
			x = rhs{kind: 'd'}
		default:
			m := hx.Pick(r, fam)
			if r.Bool() {
				x = rhs{kind: 'r', t: globalRef(m)}
			} else {
				x = rhs{kind: 'r', t: sessionRef(m)}
			}
		}
		as := []asg{{t: tg, r: x}}
		if r.Chance(1, 8) { // a second assignment in the same statement
			m := hx.Pick(r, fam)
			mv := reg.byName[m]
			as = append(as, asg{t: target{ref: sysRef{scope: hx.Pick(r, []string{"session", "global"}), name: m}}, r: rhs{kind: 'l', v: hx.Pick(r, csPoolFor(r, t, mv))}})
		}
		h = append(h, setStmt(sid, as...))
		watch := []string{n}
		if o, ok := pairOf[n]; ok {
			watch = append(watch, o)
		}
		h = append(h, readAll(1, watch), readAll(2, watch))
		if r.Chance(1, 4) {
			h = append(h, stmt{kind: "getp", pname: n})
			if o, ok := pairOf[n]; ok {
				h = append(h, stmt{kind: "getp", pname: o})
			}
		}
	}
	h = append(h, stmt{kind: "new", sid: 3})
	for _, sid := range []int{3, 1, 2} {
		h = append(h, readAll(sid, fam))
	}
	var ex []target
	for _, n := range fam {
		ex = append(ex, explicitRef(n))
	}
	h = append(h, getStmt(1, ex...))
	return h
}

// coupledCorpus: one short history per coupled variable and scope (the README shape of the class:
// SET <scope> of one half, read the other half in the issuing session, another session, a new one).
func coupledCorpus(reg *registry) [][]stmt {
	var out [][]stmt
	vals := map[string]string{"character_set_server": "latin1", "collation_server": "latin1_bin",
		"character_set_connection": "utf8mb3", "collation_connection": "utf8mb3_bin"}
	names := []string{"character_set_server", "collation_server", "character_set_connection", "collation_connection"}
	for _, n := range names {
		if v, ok := reg.byName[n]; !ok || v.Special {
			continue
		}
		o := pairOf[n]
		for _, scope := range []string{"global", "session", "persist"} {
			h := []stmt{{kind: "new", sid: 1}, {kind: "new", sid: 2},
				setStmt(1, asg{t: target{ref: sysRef{scope: scope, name: n}}, r: strLit(vals[n])}),
				readAll(1, []string{n, o}), readAll(2, []string{n, o}),
				{kind: "new", sid: 3}, readAll(3, []string{n, o})}
			out = append(out, h)
		}
	}
	if v, ok := reg.byName["character_set_client"]; ok && !v.Special {
		out = append(out, []stmt{{kind: "new", sid: 1}, {kind: "new", sid: 2}, namesStmt(1, strLit("latin1")),
			readAll(1, []string{"character_set_client", "character_set_connection", "collation_connection", "character_set_results"}),
			readAll(2, []string{"character_set_connection", "collation_connection"}),
			{kind: "new", sid: 3}, readAll(3, []string{"character_set_connection", "collation_connection"})})
	}
	for _, n := range []string{"character_set_database", "collation_database"} {
		if v, ok := reg.byName[n]; !ok || v.Special {
			continue
		}
		val := "latin1"
		if strings.HasPrefix(n, "collation") {
			val = "latin1_bin"
		}
		out = append(out, []stmt{{kind: "new", sid: 1}, {kind: "new", sid: 2},
			setStmt(1, asg{t: sessionRef(n), r: strLit(val)}), readAll(1, []string{n}), getStmt(1, explicitRef(n)),
			setStmt(1, asg{t: target{ref: sysRef{scope: "global", name: n}}, r: strLit(val)}), readAll(2, []string{n}),
			{kind: "new", sid: 3}, readAll(3, []string{n})})
	}
	return out
}

// pairConsistent: the two stored values of a pair name the same character set (Go API, model-free).
func pairConsistent(csVal, collVal string) bool {
	cs, err1 := sql.ParseCharacterSet(csVal)
	co, err2 := sql.ParseCollation("", collVal, false)
	if err1 != nil || err2 != nil {
		return false
	}
	if csVal == "" || collVal == "" {
		return true // the unspecified character set / collation stands for the default one
	}
	return co.CharacterSet() == cs
}
