// C44 — string → typed value conversion of the numeric system_* types.
//
// Facts: the compiled Convert of canonical system_int / system_uint / system_double / system_bool
// types is run over a fixed list of probe strings (plain decimals, leading zeros, signs, blanks,
// 0x / 0b / 0o prefixes, underscores, exponent and hexadecimal-float forms, garbage); the table goes
// to Gms.Generated.C44.strFacts and Props/C44 proves that the model's string arm (`convStr`) gives
// exactly these results (facts_convert_strings).
// Stream `numstr`: every usable numeric variable is assigned such strings built around values of
// its own range, as a literal (converted at plan time) and through a user variable (converted at
// execution time), in session and global scope, read back in three sessions.
// Oracle (model-free): a quoted string that is accepted by an integer variable is a plain decimal
// `[+-]?[0-9]+` and is stored as that decimal value; a plain decimal inside the variable's range is
// not rejected by a signed integer variable; a double variable accepts decimal notation only.
package main

import (
	"fmt"
	"math"
	"math/big"
	"regexp"
	"strconv"
	"strings"

	"github.com/dolthub/go-mysql-server/sql"
	"github.com/dolthub/go-mysql-server/sql/types"
	"github.com/dolthub/go-mysql-server/verifharness/hx"
)

// probeStrings: the string classes of the conversion (kept short: every entry costs a kernel
// evaluation per type in facts_convert_strings).
var probeStrings = []string{
	"0", "7", "10", "010", "0010", "08", "09", "0100", "000", "00",
	"+7", "-7", "+010", "-010", "-0", "+0", "--7", "+-7", "-+7", "+", "-", "",
	" 7", "7 ", "\t7", "7\n", " ",
	"0x10", "0X10", "0x1F", "-0x10", "0b101", "0B11", "0o17", "0O7", "0x", "x10", "10x", "0x_10",
	"1_000", "1__0", "_10", "10_", "0_7", "1_0_0",
	"1e3", "1E3", "1e+2", "25e-1", "1e0", "1e", "e3", "1.0", "1.", ".5", "1.5", "-0.25", "+1.5", "1.2.3", ".", "1.5e1", "1_0e1_0", "1e_1", "1._5",
	"0x1p4", "0X1P4", "0x1.8p1", "0x.8p0", "-0x1p-2", "0x_1p4", "0x1p", "0x1", "0x1e2", "0x1p1_0",
	"inf", "+Inf", "-infinity", "nan", "NaN",
	"1000", "1001", "-1", "-2", "1,000", "१०", "７", "9223372036854775807", "9223372036854775808", "-9223372036854775808", "-9223372036854775809",
	"18446744073709551615", "18446744073709551616", "00000000000000000000123", "on", "OFF", "True", "false", "yes", "1", "01", "o n",
}

type probeType struct {
	lean string
	t    sql.Type
}

func probeTypes() []probeType {
	return []probeType{
		{".int (-9223372036854775808) 9223372036854775807 false", types.NewSystemIntType("x", math.MinInt64, math.MaxInt64, false)},
		{".int 1 1000 true", types.NewSystemIntType("x", 1, 1000, true)},
		{".uint 0 18446744073709551615", types.NewSystemUintType("x", 0, math.MaxUint64)},
		{".double (-1000000000000000) 1000000000000000", types.NewSystemDoubleType("x", -1e15, 1e15)},
		{".double 0 100", types.NewSystemDoubleType("x", 0, 100)},
		{".bool", types.NewSystemBoolType("x")},
	}
}

func leanChars(s string) string {
	parts := []string{}
	for _, r := range s {
		if r >= 0x20 && r < 0x7f && r != '\'' && r != '\\' {
			parts = append(parts, "'"+string(r)+"'")
		} else {
			parts = append(parts, fmt.Sprintf("Char.ofNat %d", r))
		}
	}
	return "[" + strings.Join(parts, ", ") + "]"
}

// leanSVal renders a converted Go value as the model's stored value.
func leanSVal(v interface{}) (string, error) {
	switch x := v.(type) {
	case int8:
		return fmt.Sprintf("(.i8 %v)", x == 1), nil
	case int64:
		return "(.int " + leanInt(strconv.FormatInt(x, 10)) + ")", nil
	case uint64:
		return "(.uint " + strconv.FormatUint(x, 10) + ")", nil
	case float64:
		m, sc, err := decOfFloat(x)
		if err != nil {
			return "", err
		}
		if m == "-0" {
			m = "0"
		}
		return fmt.Sprintf("(.dbl %s %d)", leanInt(m), sc), nil
	}
	return "", fmt.Errorf("unexpected converted value %T(%v)", v, v)
}

// strFactsLean runs the compiled Convert over probeStrings × probeTypes.
func strFactsLean() (string, int, error) {
	var b strings.Builder
	ctx := sql.NewEmptyContext()
	b.WriteString("/-- run-time table of the compiled `Convert` (system_int, system_uint, system_double, system_bool) on strings:\n(type, characters of the string, result — `none` = rejected); doubles as `m / 10^s` of the shortest decimal text -/\n")
	b.WriteString("def strFacts : List (Ty × List Char × Option SVal) := [\n")
	n := 0
	var lines []string
	for _, pt := range probeTypes() {
		for _, s := range probeStrings {
			v, _, err := pt.t.Convert(ctx, s)
			res := "none"
			if err == nil {
				t, err2 := leanSVal(v)
				if err2 != nil {
					return "", 0, fmt.Errorf("Convert(%q) of %s: %v", s, pt.lean, err2)
				}
				res = "some " + t
			}
			lines = append(lines, fmt.Sprintf("  (%s, %s, %s)", pt.lean, leanChars(s), res))
			n++
		}
	}
	b.WriteString(strings.Join(lines, ",\n"))
	b.WriteString("\n]\n")
	return b.String(), n, nil
}

// ---------------------------------------------------------------------------------------------
// Oracle.

var (
	reDecInt   = regexp.MustCompile(`^[+-]?[0-9]+$`)
	reDecFloat = regexp.MustCompile(`^[+-]?([0-9]+\.?[0-9]*|\.[0-9]+)([eE][+-]?[0-9]+)?$`)
)

// goSyntax: Go literal syntax that is not decimal notation (known finding for double variables).
func goSyntax(s string) bool {
	t := strings.TrimLeft(s, "+-")
	return strings.Contains(s, "_") || strings.HasPrefix(strings.ToLower(t), "0x")
}

// stringOracle judges one successful or failed single assignment `SET <scope> v = '<s>'`.
// stored: the rendered value after the statement ("" if unknown); ok: the SET succeeded.
func stringOracle(vi *varInfo, s string, ok bool, errc string, stored string, text string) []oracleFail {
	var fails []oracleFail
	switch vi.Kind {
	case "int", "uint":
		if ok {
			if !reDecInt.MatchString(s) {
				return []oracleFail{{"-", fmt.Sprintf("%s accepted a string that is not a plain decimal integer and stored %s", text, stored)}}
			}
			want, _ := new(big.Int).SetString(strings.TrimPrefix(s, "+"), 10)
			if got, ok2 := new(big.Int).SetString(stored, 10); !ok2 || got.Cmp(want) != 0 {
				return []oracleFail{{"-", fmt.Sprintf("%s stored %s, the decimal value of the string is %s", text, stored, want)}}
			}
		} else if vi.Kind == "int" && errc == "err:invalid" && reDecInt.MatchString(s) {
			want, _ := new(big.Int).SetString(strings.TrimPrefix(s, "+"), 10)
			if want.Cmp(parseI(vi.Lo)) >= 0 && want.Cmp(parseI(vi.Hi)) <= 0 {
				return []oracleFail{{"-", fmt.Sprintf("%s rejected although %s is inside [%s, %s]", text, want, vi.Lo, vi.Hi)}}
			}
		}
	case "double":
		if ok {
			if goSyntax(s) {
				return []oracleFail{{"double_string_go_syntax", fmt.Sprintf("%s accepted Go literal syntax and stored %s", text, stored)}}
			}
			if !reDecFloat.MatchString(s) {
				return []oracleFail{{"-", fmt.Sprintf("%s accepted a string that is not in decimal notation and stored %s", text, stored)}}
			}
			want, ok2 := decRat(s)
			got, ok3 := new(big.Rat).SetString(stored)
			if !ok2 || !ok3 || want.Cmp(got) != 0 {
				return []oracleFail{{"-", fmt.Sprintf("%s stored %s, the value of the string is %s", text, stored, s)}}
			}
		}
	case "bool":
		if ok {
			l := strings.ToLower(s)
			want := map[string]string{"on": "1", "true": "1", "off": "0", "false": "0"}[l]
			if want == "" || want != stored {
				return []oracleFail{{"-", fmt.Sprintf("%s accepted and stored %s", text, stored)}}
			}
		}
	}
	return fails
}

// decRat: the exact value of a string in decimal notation (reDecFloat).
func decRat(s string) (*big.Rat, bool) {
	m := reDecFloat.FindStringSubmatch(s)
	if m == nil {
		return nil, false
	}
	neg := strings.HasPrefix(s, "-")
	body := strings.TrimLeft(s, "+-")
	exp := 0
	if i := strings.IndexAny(body, "eE"); i >= 0 {
		e, err := strconv.Atoi(body[i+1:])
		if err != nil || e > 400 || e < -400 {
			return nil, false
		}
		exp, body = e, body[:i]
	}
	ip, fp, _ := strings.Cut(body, ".")
	n, ok := new(big.Int).SetString(ip+fp, 10)
	if !ok {
		return nil, false
	}
	exp -= len(fp)
	r := new(big.Rat).SetInt(n)
	p := new(big.Rat).SetInt(new(big.Int).Exp(big.NewInt(10), big.NewInt(int64(abs(exp))), nil))
	if exp >= 0 {
		r.Mul(r, p)
	} else {
		r.Quo(r, p)
	}
	if neg {
		r.Neg(r)
	}
	return r, true
}

func abs(x int) int {
	if x < 0 {
		return -x
	}
	return x
}

// ---------------------------------------------------------------------------------------------
// Generator.

// numForms: textual forms around the integer n (decimal text d): the plain decimal, zero-padded,
// signed, blank-padded, base-prefixed (the value n written in hex / binary / octal, and d itself
// re-read with a prefix), underscored, exponent / point / hexadecimal-float forms.
func numForms(r *hx.Rand, n *big.Int) []string {
	d := n.String()
	abs := new(big.Int).Abs(n)
	sign := ""
	if n.Sign() < 0 {
		sign = "-"
	}
	a := abs.String()
	forms := []string{
		d, sign + "0" + a, sign + "00" + a, sign + "000000000000000000000" + a,
		"+" + a, "-" + a, "+0" + a, " " + d, d + " ", "\t" + d,
		sign + "0x" + abs.Text(16), sign + "0X" + strings.ToUpper(abs.Text(16)), sign + "0b" + abs.Text(2), sign + "0o" + abs.Text(8), sign + "0" + abs.Text(8),
		sign + "0x" + a, sign + "0b" + a, sign + "0o" + a,
		d + ".0", d + ".", d + "e0", d + "E0", d + "e+0", sign + "0x" + abs.Text(16) + "p0", sign + "0x" + abs.Text(16) + "P+0",
		d + "x", "x" + d, d + "_", "_" + d, "--" + a, "+-" + a,
	}
	if len(a) > 1 {
		forms = append(forms, sign+a[:1]+"_"+a[1:], sign+a[:1]+"__"+a[1:], sign+a[:len(a)-1]+"_"+a[len(a)-1:])
		forms = append(forms, sign+a[:len(a)-1]+"."+a[len(a)-1:]+"e1", sign+a[:1]+"."+a[1:]+"e"+strconv.Itoa(len(a)-1))
	}
	if strings.HasSuffix(a, "0") && len(a) > 1 {
		t := strings.TrimRight(a, "0")
		forms = append(forms, sign+t+"e"+strconv.Itoa(len(a)-len(t)), sign+t+"E+"+strconv.Itoa(len(a)-len(t)))
	}
	// fractional neighbours for the double variables
	forms = append(forms, d+".5", d+".25e1", sign+"."+a, sign+"0x"+abs.Text(16)+".8p0", sign+"0x"+abs.Text(16)+"p-1", sign+"0x"+abs.Text(16)+"p1")
	return forms
}

func inRange(v *varInfo, n *big.Int) bool {
	return n.Cmp(parseI(v.Lo)) >= 0 && n.Cmp(parseI(v.Hi)) <= 0
}

// numBases: integers inside and around the range of v whose re-readings under another base also
// tend to land inside the range (small multiples of 8, 10, 16 and the bounds).
func numBases(r *hx.Rand, v *varInfo) []*big.Int {
	var out []*big.Int
	add := func(x *big.Int) {
		if x.BitLen() <= 62 { // float64-exact envelope applies to doubles only, checked there
			out = append(out, x)
		}
	}
	switch v.Kind {
	case "int", "uint", "double":
		lo, hi := parseI(v.Lo), parseI(v.Hi)
		cands := []int64{0, 1, 7, 8, 9, 10, 11, 17, 64, 77, 100, 101, 110, 255, 256, 1000, 1001, 1010, 1777, 4096, 7777, 10000, 65535, 100000, 1000000}
		for _, c := range cands {
			x := big.NewInt(c)
			if inRange(v, x) {
				add(x)
			}
		}
		for i := 0; i < 3; i++ {
			span := new(big.Int).Sub(hi, lo)
			if span.Sign() > 0 && span.BitLen() < 60 {
				off := new(big.Int).SetUint64(r.U64())
				off.Mod(off, new(big.Int).Add(span, big.NewInt(1)))
				add(new(big.Int).Add(lo, off))
			} else {
				add(big.NewInt(int64(r.Intn(100000))))
			}
		}
		if lo.BitLen() < 53 {
			add(lo)
			add(new(big.Int).Sub(lo, big.NewInt(1)))
		}
		if hi.BitLen() < 53 {
			add(hi)
			add(new(big.Int).Add(hi, big.NewInt(1)))
		}
		if lo.Sign() < 0 {
			add(big.NewInt(-1))
			add(big.NewInt(-10))
			add(big.NewInt(-64))
		}
	case "bool":
		out = []*big.Int{big.NewInt(0), big.NewInt(1), big.NewInt(10)}
	case "enum":
		out = []*big.Int{big.NewInt(0), big.NewInt(1), big.NewInt(int64(len(v.Values) - 1)), big.NewInt(int64(len(v.Values)))}
	case "set":
		n := len(v.Values)
		out = []*big.Int{big.NewInt(0), big.NewInt(1), big.NewInt(2), big.NewInt(int64(1) << uint(r.Intn(n))), big.NewInt(3), big.NewInt(10), big.NewInt(8)}
	}
	if len(out) == 0 {
		out = []*big.Int{big.NewInt(int64(r.Intn(1000)))}
	}
	return out
}

// sqlSafe: the string can be written between single quotes as it is.
func sqlSafe(s string) bool { return !strings.ContainsAny(s, "'\\") }

// numstrHistory: one variable, n string assignments (literal or through a user variable), watched
// by two sessions, then a new session.
func numstrHistory(r *hx.Rand, v *varInfo, n int) []stmt {
	h := []stmt{{kind: "new", sid: 1}, {kind: "new", sid: 2}}
	bases := numBases(r, v)
	extra := []string{"", " ", "+", "-", "abc", "0x", "inf", "nan", "1e", ".", "on", "OFF", "true", "1,000"}
	for i := 0; i < n; i++ {
		var s string
		if r.Chance(1, 8) {
			s = hx.Pick(r, extra)
		} else {
			s = hx.Pick(r, numForms(r, hx.Pick(r, bases)))
		}
		if !sqlSafe(s) {
			continue
		}
		scope := "session"
		switch v.Scope {
		case "global":
			scope = "global"
		case "session":
		default:
			if r.Chance(1, 2) {
				scope = "global"
			}
		}
		if r.Chance(1, 12) {
			scope = hx.Pick(r, []string{"persist", "persistonly"})
		}
		t := target{ref: sysRef{scope: scope, explicit: r.Chance(1, 4), name: v.Name}}
		if r.Chance(1, 4) {
			// through a user variable: converted at execution time by SetValue
			u := target{user: true, name: "s"}
			h = append(h, setStmt(1, lit(u, sv(s))), setStmt(1, asg{t: t, r: rhs{kind: 'r', t: u}}))
		} else {
			h = append(h, setStmt(1, lit(t, sv(s))))
		}
		h = append(h, getStmt(1, sessionRef(v.Name), globalRef(v.Name)))
		if r.Chance(1, 3) {
			h = append(h, getStmt(2, sessionRef(v.Name), globalRef(v.Name)))
		}
	}
	h = append(h, stmt{kind: "new", sid: 3}, getStmt(3, sessionRef(v.Name), globalRef(v.Name)), getStmt(2, sessionRef(v.Name), globalRef(v.Name)), stmt{kind: "getp", pname: v.Name})
	return h
}

// numstrCorpus: the witness shapes of the class on well-known variables.
func numstrCorpus(reg *registry) [][]stmt {
	var out [][]stmt
	one := func(name, scope string, strs ...string) {
		v, ok := reg.byName[name]
		if !ok || v.Special {
			return
		}
		h := []stmt{{kind: "new", sid: 1}, {kind: "new", sid: 2}}
		for _, s := range strs {
			h = append(h, setStmt(1, lit(target{ref: sysRef{scope: scope, name: name}}, sv(s))), getStmt(1, sessionRef(name), globalRef(name)))
		}
		h = append(h, stmt{kind: "new", sid: 3}, getStmt(3, sessionRef(name), globalRef(name)), getStmt(2, sessionRef(name), globalRef(name)))
		out = append(out, h)
	}
	one("wait_timeout", "session", "010", "0x20", "1_000", "08", "+9", " 9", "1e2")
	one("sql_select_limit", "session", "0100", "0b101", "0o17", "00")
	one("max_connections", "global", "0200", "0b101", "200 ")
	one("auto_increment_offset", "session", "08", "09", "010")
	one("max_join_size", "session", "15", "015")
	one("long_query_time", "session", "010", "1e1", "2.50", "1_0", "0x1p4", "0x10", " 1")
	one("autocommit", "session", "off", "0", "01", "ON", "1")
	return out
}
