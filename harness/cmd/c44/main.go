// C44 — System and user variables store and scope values correctly.
//
// extract: dumps the registry (sql/variables systemVars + mariadbSystemVars, with the unexported
//          bounds / member lists of the system_* types) from the freshly compiled code, plus go/ast
//          facts about the code paths the model transliterates (name-keyed special cases in the
//          executor and planbuilder, the check list of MysqlSystemVariable.SetValue, the call order
//          of SET PERSIST).
// run:     multi-session SET / SELECT histories against the real engine (one history = one case),
//          with a model-free oracle (failed statement has no effect, session isolation, new
//          sessions see the globals, integer literals read back unchanged).
//
// Further streams: strconv.go (numeric strings: facts table + `numstr` histories + oracle),
// charset.go (character-set / collation family: validators, coupled pairs, catalog reads, SET NAMES).
//
// Envelope (see lean/Gms/Model/SysVars.lean): variables flagged `special` (a NotifyChanged hook other
// than the two character-set validators / ValueFunction / validated by name / not a system_* type)
// are never SET or read;
// sql_mode never gets a numeric value (planbuilder rewrites IntVal through ConvertSqlModeBitmask).
// SET PERSIST on a memory.Session without SetGlobals(...) panics ("assignment to entry in nil
// map", the default session builder never calls it) — that is C10's business; sessions here get a
// persisted map.
package main

import (
	"context"
	"fmt"
	"go/ast"
	"go/token"
	"math/big"
	"os"
	"sort"
	"strconv"
	"strings"

	"github.com/dolthub/go-mysql-server/memory"
	"github.com/dolthub/go-mysql-server/sql"
	"github.com/dolthub/go-mysql-server/sql/types"
	"github.com/dolthub/go-mysql-server/sql/variables"
	"github.com/dolthub/go-mysql-server/verifharness/hx"
	"github.com/dolthub/go-mysql-server/verifharness/hx/eng"
)

func main() {
	if len(os.Args) > 1 && os.Args[1] == "script" {
		scriptMain()
		return
	}
	hx.Main(extract, run)
}

// ---------------------------------------------------------------------------------------------
// Registry dump (shared by extract and run).

type varInfo struct {
	Name    string
	Scope   string // global | session | both | persist
	Dynamic bool
	Special bool
	Kind    string
	Lo, Hi  string
	NegOne  bool
	Values  []string
	LeanTy  string
	LeanDef string
	DefText string
	Allowed string // "charset" | "collation": NotifyChanged validator (accepted names = keys of the dumped tables)
	Couple  string // the counterpart assigned by setSystemVar
	Catalog string // what a SESSION-scope read returns for character_set_database / collation_database
	HasCat  bool
}

type registry struct {
	vars        []varInfo
	byName      map[string]*varInfo
	keyMismatch []string
	dupKeys     []string
	badEntries  []string
	dupMembers  []string // enum / set variables with two members equal case-insensitively (or an empty / comma member in a set)
	defRejected []string // variables whose registered default is rejected by their own Type.Convert
}

func leanStrList(xs []string) string {
	parts := make([]string, len(xs))
	for i, x := range xs {
		parts[i] = hx.LeanString(x)
	}
	return "[" + strings.Join(parts, ", ") + "]"
}

func leanInt(s string) string {
	if strings.HasPrefix(s, "-") {
		return "(" + s + ")"
	}
	return s
}

// floatToInt returns the exact integer value of f, or an error if f is not integral.
func floatToInt(f float64) (string, error) {
	bf := new(big.Float).SetFloat64(f)
	if !bf.IsInt() {
		return "", fmt.Errorf("bound %v is not integral", f)
	}
	i, _ := bf.Int(nil)
	return i.String(), nil
}

// decOfFloat renders a float64 default as (mantissa, scale) of its shortest decimal text.
func decOfFloat(f float64) (string, int, error) {
	t := strconv.FormatFloat(f, 'f', -1, 64)
	neg := strings.HasPrefix(t, "-")
	t = strings.TrimPrefix(t, "-")
	ip, fp, _ := strings.Cut(t, ".")
	m, ok := new(big.Int).SetString(ip+fp, 10)
	if !ok {
		return "", 0, fmt.Errorf("cannot render %v", f)
	}
	if neg {
		m.Neg(m)
	}
	return m.String(), len(fp), nil
}

func dumpRegistry(special map[string]bool) (*registry, error) {
	reg := &registry{byName: map[string]*varInfo{}}
	catalog, err := catalogValues()
	if err != nil {
		return nil, err
	}
	seen := map[string]bool{}
	for _, e := range variables.VerifRegistry() {
		if seen[e.Key] {
			reg.dupKeys = append(reg.dupKeys, e.Key)
			continue // getSystemVar prefers systemVars
		}
		seen[e.Key] = true
		m, ok := e.Var.(*sql.MysqlSystemVariable)
		if !ok {
			reg.badEntries = append(reg.badEntries, e.Key+": not a *MysqlSystemVariable")
			continue
		}
		if m.Name != e.Key || strings.ToLower(e.Key) != e.Key {
			reg.keyMismatch = append(reg.keyMismatch, e.Key)
		}
		v := varInfo{Name: e.Key, Dynamic: m.Dynamic}
		switch m.Scope.Type {
		case sql.SystemVariableScope_Global:
			v.Scope = "global"
		case sql.SystemVariableScope_Session:
			v.Scope = "session"
		case sql.SystemVariableScope_Both:
			v.Scope = "both"
		case sql.SystemVariableScope_Persist:
			v.Scope = "persist"
		default:
			reg.badEntries = append(reg.badEntries, fmt.Sprintf("%s: scope %v", e.Key, m.Scope.Type))
			continue
		}
		d := types.VerifDescribeSysVarType(m.Type)
		v.Kind, v.Lo, v.Hi, v.NegOne, v.Values = d.Kind, d.Lo, d.Hi, d.NegOne, d.Values
		if d.Kind == "enum" || d.Kind == "set" {
			seenM := map[string]bool{}
			for _, x := range d.Values {
				l := strings.ToLower(x)
				if seenM[l] || (d.Kind == "set" && (x == "" || strings.Contains(x, ","))) {
					reg.dupMembers = append(reg.dupMembers, e.Key)
					break
				}
				seenM[l] = true
			}
		}
		if _, isSys := m.Type.(sql.SystemVariableType); isSys && m.ValueFunction == nil {
			if _, _, err := m.Type.Convert(sql.NewEmptyContext(), m.Default); err != nil {
				reg.defRejected = append(reg.defRejected, e.Key)
			}
		}
		nk := notifyKind(m)
		v.Special = special[e.Key] || m.ValueFunction != nil || nk == "other"
		if nk == "charset" || nk == "collation" {
			v.Allowed = nk
			if d.Kind != "string" {
				v.Special = true
			}
		}
		if o, ok := pairOf[e.Key]; ok {
			v.Couple = o
			// the coupling table is keyed by what the variable's own validator accepts
			if (strings.HasPrefix(e.Key, "character_set_") && nk != "charset") || (strings.HasPrefix(e.Key, "collation_") && nk != "collation") {
				v.Special = true
			}
		}
		if catalogVars[e.Key] {
			v.Catalog, v.HasCat = catalog[e.Key], true
		}
		if d.VarName != "" && d.VarName != e.Key {
			reg.badEntries = append(reg.badEntries, fmt.Sprintf("%s: type carries the name %q", e.Key, d.VarName))
		}
		bad := func(format string, a ...any) {
			reg.badEntries = append(reg.badEntries, e.Key+": "+fmt.Sprintf(format, a...))
		}
		switch d.Kind {
		case "bool":
			v.LeanTy = ".bool"
			if x, ok := m.Default.(int8); ok && (x == 0 || x == 1) {
				v.LeanDef = fmt.Sprintf(".i8 %v", x == 1)
				v.DefText = fmt.Sprint(x)
			} else {
				bad("bool default %T(%v)", m.Default, m.Default)
			}
		case "int":
			v.LeanTy = fmt.Sprintf(".int %s %s %v", leanInt(d.Lo), leanInt(d.Hi), d.NegOne)
			switch x := m.Default.(type) {
			case int64:
				v.DefText = strconv.FormatInt(x, 10)
			case int:
				v.DefText = strconv.Itoa(x)
			default:
				bad("int default %T(%v)", m.Default, m.Default)
			}
			v.LeanDef = ".int " + leanInt(v.DefText)
		case "uint":
			v.LeanTy = fmt.Sprintf(".uint %s %s", d.Lo, d.Hi)
			// the registered default is stored as it is (InitSystemVariables does not convert it), so its
			// Go type is what `SET @u = @@x` sees
			goInt := false
			switch x := m.Default.(type) {
			case uint64:
				v.DefText = strconv.FormatUint(x, 10)
			case int64:
				v.DefText, goInt = strconv.FormatInt(x, 10), true
			case int:
				v.DefText, goInt = strconv.Itoa(x), true
			default:
				bad("uint default %T(%v)", m.Default, m.Default)
			}
			if strings.HasPrefix(v.DefText, "-") {
				bad("negative uint default %s", v.DefText)
			}
			v.LeanDef = ".uint " + v.DefText
			if goInt {
				v.LeanDef = ".int " + v.DefText
			}
		case "double":
			sm, _ := m.Type.(sql.Type)
			_ = sm
			lo, err1 := strconv.ParseFloat(d.Lo, 64)
			hi, err2 := strconv.ParseFloat(d.Hi, 64)
			if err1 != nil || err2 != nil {
				bad("double bounds %s %s", d.Lo, d.Hi)
				break
			}
			los, err1 := floatToInt(lo)
			his, err2 := floatToInt(hi)
			if err1 != nil || err2 != nil {
				bad("double bounds are not integral: %s %s", d.Lo, d.Hi)
				break
			}
			v.Lo, v.Hi = los, his
			v.LeanTy = fmt.Sprintf(".double %s %s", leanInt(los), leanInt(his))
			if x, ok := m.Default.(float64); ok {
				ms, sc, err := decOfFloat(x)
				if err != nil {
					bad("%v", err)
				}
				v.LeanDef = fmt.Sprintf(".dbl %s %d", leanInt(ms), sc)
				v.DefText = strconv.FormatFloat(x, 'f', -1, 64)
			} else {
				bad("double default %T(%v)", m.Default, m.Default)
			}
		case "enum", "set", "string":
			switch d.Kind {
			case "enum":
				v.LeanTy = ".enum " + leanStrList(d.Values)
			case "set":
				v.LeanTy = ".set " + leanStrList(d.Values)
			default:
				v.LeanTy = ".string"
			}
			if x, ok := m.Default.(string); ok {
				v.LeanDef = ".str " + hx.LeanString(x)
				v.DefText = x
			} else {
				bad("%s default %T(%v)", d.Kind, m.Default, m.Default)
			}
		default:
			v.LeanTy = ".other"
			v.Special = true
			v.DefText = fmt.Sprint(m.Default)
			// not a system_* type (server_id, server_uuid): never driven; the default is not part of the facts
			// (server_uuid is a fresh random value in every process, which would change the fact file on every run)
			v.LeanDef = ".str \"\""
		}
		reg.vars = append(reg.vars, v)
	}
	sort.Slice(reg.vars, func(i, j int) bool { return reg.vars[i].Name < reg.vars[j].Name })
	for i := range reg.vars {
		reg.byName[reg.vars[i].Name] = &reg.vars[i]
	}
	return reg, nil
}

// ---------------------------------------------------------------------------------------------
// go/ast facts.

// switchCaseStrings collects the string literals of `case "…"` clauses of every switch in fn whose
// tag is strings.ToLower(<tagArg>).
func switchCaseStrings(src *hx.Src, fn *ast.FuncDecl, tagArgs map[string]bool) []string {
	var out []string
	ast.Inspect(fn.Body, func(n ast.Node) bool {
		sw, ok := n.(*ast.SwitchStmt)
		if !ok || sw.Tag == nil {
			return true
		}
		call, ok := sw.Tag.(*ast.CallExpr)
		if !ok || len(call.Args) != 1 || src.Text(call.Fun) != "strings.ToLower" || !tagArgs[src.Text(call.Args[0])] {
			return true
		}
		for _, st := range sw.Body.List {
			cc := st.(*ast.CaseClause)
			for _, e := range cc.List {
				if bl, ok := e.(*ast.BasicLit); ok && bl.Kind == token.STRING {
					s, _ := strconv.Unquote(bl.Value)
					out = append(out, s)
				}
			}
		}
		return true
	})
	return out
}

type specialFacts struct {
	coupled, validated, planSpecial, planIntSpecial []string
	coupledWrites, strconvCalls     [][2]string
	namesExpansion                  []string
	setValueChecks                  [][2]string
	persistCalls, persistOnlyCalls  []string
	files                           []string
}

func astFacts(repo string) (*specialFacts, error) {
	f := &specialFacts{}
	ri, err := hx.ParseSrc(repo, "sql/rowexec/rel_iters.go")
	if err != nil {
		return nil, err
	}
	fn, err := ri.Func("", "setSystemVar")
	if err != nil {
		return nil, err
	}
	f.coupled = switchCaseStrings(ri, fn, map[string]bool{"sysVar.Name": true})
	// every `<recv>.SetValue(ctx, <name>, …)` of setSystemVar: through which scope the variable itself and
	// the counterparts are written
	ast.Inspect(fn.Body, func(n ast.Node) bool {
		call, ok := n.(*ast.CallExpr)
		if !ok || len(call.Args) < 2 {
			return true
		}
		if sel, ok := call.Fun.(*ast.SelectorExpr); ok && sel.Sel.Name == "SetValue" {
			w := [2]string{ri.Text(sel.X), ri.Text(call.Args[1])}
			dup := false
			for _, x := range f.coupledWrites {
				dup = dup || x == w
			}
			if !dup {
				f.coupledWrites = append(f.coupledWrites, w)
			}
		}
		return true
	})
	fn, err = ri.Func("", "validateSystemVariableValue")
	if err != nil {
		return nil, err
	}
	f.validated = switchCaseStrings(ri, fn, map[string]bool{"sysVarName": true})
	pb, err := hx.ParseSrc(repo, "sql/planbuilder/set.go")
	if err != nil {
		return nil, err
	}
	fn, err = pb.Func("Builder", "buildSysVar")
	if err != nil {
		return nil, err
	}
	f.planSpecial = switchCaseStrings(pb, fn, map[string]bool{"varName": true})
	fn, err = pb.Func("Builder", "setExprsToExpressions")
	if err != nil {
		return nil, err
	}
	f.planIntSpecial = switchCaseStrings(pb, fn, map[string]bool{"sysVar.Name": true})
	core, err := hx.ParseSrc(repo, "sql/core.go")
	if err != nil {
		return nil, err
	}
	fn, err = core.Func("MysqlSystemVariable", "SetValue")
	if err != nil {
		return nil, err
	}
	for _, st := range fn.Body.List {
		switch s := st.(type) {
		case *ast.IfStmt:
			kind := ""
			ast.Inspect(s.Body, func(n ast.Node) bool {
				if sel, ok := n.(*ast.SelectorExpr); ok && strings.HasPrefix(src(core, sel.X), "Err") {
					kind = src(core, sel.X)
				}
				return true
			})
			f.setValueChecks = append(f.setValueChecks, [2]string{strings.Join(strings.Fields(core.Text(s.Cond)), " "), kind})
		case *ast.ReturnStmt:
			f.setValueChecks = append(f.setValueChecks, [2]string{"otherwise", strings.Join(strings.Fields(core.Text(s.Results[0])), " ")})
		default:
			return nil, fmt.Errorf("MysqlSystemVariable.SetValue: unexpected statement %T", st)
		}
	}
	fn, err = core.Func("MysqlScope", "SetValue")
	if err != nil {
		return nil, err
	}
	found := 0
	ast.Inspect(fn.Body, func(n ast.Node) bool {
		cc, ok := n.(*ast.CaseClause)
		if !ok || len(cc.List) != 1 {
			return true
		}
		which := core.Text(cc.List[0])
		if which != "SystemVariableScope_Persist" && which != "SystemVariableScope_PersistOnly" {
			return true
		}
		found++
		var calls []string
		for _, st := range cc.Body {
			ast.Inspect(st, func(n ast.Node) bool {
				if call, ok := n.(*ast.CallExpr); ok {
					if sel, ok := call.Fun.(*ast.SelectorExpr); ok && (sel.Sel.Name == "PersistGlobal" || sel.Sel.Name == "SetGlobal") {
						calls = append(calls, sel.Sel.Name)
					}
				}
				return true
			})
		}
		if which == "SystemVariableScope_Persist" {
			f.persistCalls = calls
		} else {
			f.persistOnlyCalls = calls
		}
		return true
	})
	if found != 2 {
		return nil, fmt.Errorf("MysqlScope.SetValue: Persist / PersistOnly cases not found")
	}
	// SET NAMES: the variables getSetVarExprsFromSetNamesExpr assigns, in order
	fn, err = pb.Func("", "getSetVarExprsFromSetNamesExpr")
	if err != nil {
		return nil, err
	}
	ast.Inspect(fn.Body, func(n ast.Node) bool {
		if call, ok := n.(*ast.CallExpr); ok && pb.Text(call.Fun) == "ast.NewColName" && len(call.Args) == 1 {
			if bl, ok := call.Args[0].(*ast.BasicLit); ok && bl.Kind == token.STRING {
				x, _ := strconv.Unquote(bl.Value)
				f.namesExpansion = append(f.namesExpansion, x)
			}
		}
		return true
	})
	// every strconv call of the system_* types and of SetType (the base / bit size arguments are part of
	// what the model transliterates)
	f.files = []string{ri.Path, pb.Path, core.Path}
	for _, rel := range []string{"sql/types/system_bool.go", "sql/types/system_int.go", "sql/types/system_uint.go", "sql/types/system_double.go",
		"sql/types/system_enum.go", "sql/types/system_set.go", "sql/types/set.go"} {
		ts, err := hx.ParseSrc(repo, rel)
		if err != nil {
			return nil, err
		}
		for _, d := range ts.File.Decls {
			fd, ok := d.(*ast.FuncDecl)
			if !ok || fd.Body == nil {
				continue
			}
			ast.Inspect(fd.Body, func(n ast.Node) bool {
				call, ok := n.(*ast.CallExpr)
				if !ok {
					return true
				}
				if sel, ok := call.Fun.(*ast.SelectorExpr); ok {
					if id, ok := sel.X.(*ast.Ident); ok && id.Name == "strconv" && strings.HasPrefix(sel.Sel.Name, "Parse") {
						f.strconvCalls = append(f.strconvCalls, [2]string{rel[strings.LastIndex(rel, "/")+1:] + ":" + fd.Name.Name, strings.Join(strings.Fields(ts.Text(call)), " ")})
					}
				}
				return true
			})
		}
		f.files = append(f.files, ts.Path)
	}
	return f, nil
}

func src(s *hx.Src, n ast.Node) string { return s.Text(n) }

// specialSet: names treated by name in the executor / planbuilder in a way the model does not
// cover (the coupled pairs and the catalog variables are modelled: charset.go).
func (f *specialFacts) specialSet() map[string]bool {
	m := map[string]bool{}
	for _, n := range f.validated {
		m[n] = true
	}
	for _, n := range f.coupled {
		if _, ok := pairOf[n]; !ok {
			m[n] = true
		}
	}
	for _, n := range f.planSpecial {
		if !catalogVars[n] {
			m[n] = true
		}
	}
	return m
}

func extract(a hx.ExtractArgs) error {
	facts, err := astFacts(a.Repo)
	if err != nil {
		return err
	}
	reg, err := dumpRegistry(facts.specialSet())
	if err != nil {
		return err
	}
	tabs, tfiles, err := dumpCsTables(a.Repo)
	if err != nil {
		return err
	}
	sfacts, nfacts, err := strFactsLean()
	if err != nil {
		return err
	}
	var b strings.Builder
	fmt.Fprintf(&b, "/- GENERATED on every run by the harness extractor from /repo's working tree. Do not edit.\n   Sources: run-time dump of sql/variables systemVars + mariadbSystemVars (types: sql/types/system_*.go), %s,\n   run-time dump of sql.ParseCharacterSet / sql.ParseCollation over the names of %s, run-time table of Convert on %d strings -/\n", strings.Join(facts.files, ", "), strings.Join(tfiles, ", "), nfacts)
	b.WriteString("import Gms.Model.SysVars\nnamespace Gms.Generated.C44\n\nopen Gms.SysVars\n\n")
	b.WriteString("/-- names `sql.ParseCharacterSet` accepts (lower case) and the name of the default collation of each -/\n")
	b.WriteString("def charsetDefault : List (String × String) := " + leanKvList(tabs.charsetDefault) + "\n\n")
	b.WriteString("/-- names `sql.ParseCollation` accepts (lower case) and the name of the character set of each -/\n")
	b.WriteString("def collationCharset : List (String × String) := " + leanKvList(tabs.collationCharset) + "\n\n")
	b.WriteString(sfacts + "\n")
	b.WriteString("/-- the registry as compiled: name, Scope.Type, Dynamic, special (hook / coupled / foreign type), type with bounds, Default -/\n")
	b.WriteString("def sysvars : List Var := [\n")
	for i, v := range reg.vars {
		sep := ","
		if i == len(reg.vars)-1 {
			sep = ""
		}
		more := ""
		tabOf := map[string]string{"charset": "charsetDefault", "collation": "collationCharset"}
		if v.Allowed != "" {
			more += fmt.Sprintf(", allowed := some (%s.map (·.1))", tabOf[v.Allowed])
		}
		if v.Couple != "" && v.Allowed != "" {
			more += fmt.Sprintf(", couple := some (%s, %s)", hx.LeanString(v.Couple), tabOf[v.Allowed])
		}
		if v.HasCat {
			more += fmt.Sprintf(", catalog := some (.str %s)", hx.LeanString(v.Catalog))
		}
		fmt.Fprintf(&b, "  { name := %s, scope := .%s, dynamic := %v, special := %v, ty := %s, default := %s%s }%s\n",
			hx.LeanString(v.Name), v.Scope, v.Dynamic, v.Special, v.LeanTy, v.LeanDef, more, sep)
	}
	b.WriteString("]\n\n")
	fmt.Fprintf(&b, "/-- map keys that differ from the entry's Name or are not lower case -/\ndef keyMismatch : List String := %s\n", leanStrList(reg.keyMismatch))
	fmt.Fprintf(&b, "/-- keys present in both systemVars and mariadbSystemVars -/\ndef dupKeys : List String := %s\n", leanStrList(reg.dupKeys))
	sort.Strings(reg.dupMembers)
	sort.Strings(reg.defRejected)
	fmt.Fprintf(&b, "/-- enum / set variables with case-insensitively equal members (or an empty / comma member of a set) -/\ndef dupMembers : List String := %s\n", leanStrList(reg.dupMembers))
	fmt.Fprintf(&b, "/-- variables whose registered default is rejected by their own Type.Convert (run on the compiled code) -/\ndef defaultRejected : List String := %s\n", leanStrList(reg.defRejected))
	fmt.Fprintf(&b, "/-- entries the dump could not describe (unexpected default type, non-integral bound, …) -/\ndef badEntries : List String := %s\n\n", leanStrList(reg.badEntries))
	fmt.Fprintf(&b, "/-- sql/rowexec/rel_iters.go setSystemVar: names with a coupled second assignment -/\ndef coupledVars : List String := %s\n", leanStrList(facts.coupled))
	pairList := func(xs [][2]string) string {
		parts := make([]string, len(xs))
		for i, c := range xs {
			parts[i] = fmt.Sprintf("(%s, %s)", hx.LeanString(c[0]), hx.LeanString(c[1]))
		}
		return "[" + strings.Join(parts, ", ") + "]"
	}
	fmt.Fprintf(&b, "/-- setSystemVar: every `<receiver>.SetValue(ctx, <name>, …)` (receiver, name), duplicates removed -/\ndef coupledWrites : List (String × String) := %s\n", pairList(facts.coupledWrites))
	fmt.Fprintf(&b, "/-- getSetVarExprsFromSetNamesExpr: what SET NAMES assigns, in order -/\ndef namesExpansion : List String := %s\n", leanStrList(facts.namesExpansion))
	fmt.Fprintf(&b, "/-- strconv.Parse* calls of the system_* types and SetType: (file:function, call) -/\ndef strconvCalls : List (String × String) := %s\n", pairList(facts.strconvCalls))
	fmt.Fprintf(&b, "/-- validateSystemVariableValue: names validated by name -/\ndef validatedVars : List String := %s\n", leanStrList(facts.validated))
	fmt.Fprintf(&b, "/-- sql/planbuilder/set.go buildSysVar: names read from the database instead of the session -/\ndef planSpecialVars : List String := %s\n", leanStrList(facts.planSpecial))
	fmt.Fprintf(&b, "/-- sql/planbuilder/set.go setExprsToExpressions: names whose integer literals are rewritten -/\ndef planIntSpecialVars : List String := %s\n", leanStrList(facts.planIntSpecial))
	b.WriteString("/-- sql/core.go MysqlSystemVariable.SetValue: (condition, error kind) in order, then the fall-through -/\ndef setValueChecks : List (String × String) := [")
	for i, c := range facts.setValueChecks {
		if i > 0 {
			b.WriteString(", ")
		}
		fmt.Fprintf(&b, "(%s, %s)", hx.LeanString(c[0]), hx.LeanString(c[1]))
	}
	b.WriteString("]\n")
	fmt.Fprintf(&b, "/-- MysqlScope.SetValue, case Persist / PersistOnly: order of the calls -/\ndef persistCalls : List String := %s\ndef persistOnlyCalls : List String := %s\n", leanStrList(facts.persistCalls), leanStrList(facts.persistOnlyCalls))
	b.WriteString("\nend Gms.Generated.C44\n")
	return os.WriteFile(a.Out, []byte(b.String()), 0o644)
}

// ---------------------------------------------------------------------------------------------
// Histories.

type val struct {
	k   byte // n b i u d f s
	b   bool
	i   int64
	u   uint64
	m   int64
	sc  int
	str string
}

func (v val) sexp() string {
	switch v.k {
	case 'n':
		return "null"
	case 'b':
		if v.b {
			return "(b 1)"
		}
		return "(b 0)"
	case 'i':
		return fmt.Sprintf("(i %d)", v.i)
	case 'u':
		return fmt.Sprintf("(u %d)", v.u)
	case 'd':
		return fmt.Sprintf("(d %d %d)", v.m, v.sc)
	case 'f':
		return fmt.Sprintf("(f %d %d)", v.m, v.sc)
	}
	return "(s " + hx.HexS(v.str) + ")"
}

func decText(m int64, sc int) string {
	neg := m < 0
	a := new(big.Int).Abs(big.NewInt(m)).String()
	if sc > 0 {
		for len(a) <= sc {
			a = "0" + a
		}
		a = a[:len(a)-sc] + "." + a[len(a)-sc:]
	}
	if neg {
		a = "-" + a
	}
	return a
}

func (v val) sql(r *hx.Rand) string {
	switch v.k {
	case 'n':
		return "NULL"
	case 'b':
		if v.b {
			return hx.Pick(r, []string{"TRUE", "true"})
		}
		return hx.Pick(r, []string{"FALSE", "false"}) // bare ON / OFF are string values for the parser
	case 'i':
		return strconv.FormatInt(v.i, 10)
	case 'u':
		return strconv.FormatUint(v.u, 10)
	case 'd':
		return decText(v.m, v.sc)
	case 'f':
		return fmt.Sprintf("%de-%d", v.m, v.sc)
	}
	return "'" + v.str + "'"
}

type sysRef struct {
	scope    string // session | global | persist | persistonly
	explicit bool
	name     string
}

type target struct {
	user bool
	ref  sysRef
	name string
}

func (t target) sexp() string {
	if t.user {
		return hx.List("user", hx.HexS(t.name))
	}
	e := "0"
	if t.ref.explicit {
		e = "1"
	}
	return hx.List("sys", t.ref.scope, e, hx.HexS(t.ref.name))
}

// lhs prints a SET target. first: first assignment of the statement (a bare name is only used
// there: `SET GLOBAL a = 1, b = 2` would be ambiguous otherwise). known: the name is registered
// (a bare unknown name is a column reference, not a variable).
func (t target) lhs(r *hx.Rand, first, known bool) string {
	if t.user {
		return "@" + t.name
	}
	n := t.ref.name
	switch t.ref.scope {
	case "session":
		if t.ref.explicit {
			return hx.Pick(r, []string{"@@session.", "@@SESSION.", "@@local."}) + n
		}
		forms := []string{"SESSION " + n, "@@" + n, "LOCAL " + n}
		if first && known {
			forms = append(forms, n)
		}
		return hx.Pick(r, forms)
	case "global":
		if t.ref.explicit {
			return hx.Pick(r, []string{"@@global.", "@@GLOBAL."}) + n
		}
		return "GLOBAL " + n
	case "persist":
		if t.ref.explicit {
			return "@@persist." + n
		}
		return "PERSIST " + n
	}
	if t.ref.explicit {
		return "@@persist_only." + n
	}
	return "PERSIST_ONLY " + n
}

// expr prints a reference used as a value (select item or right-hand side).
func (t target) expr() string {
	if t.user {
		return "@" + t.name
	}
	switch {
	case t.ref.scope == "global":
		return "@@global." + t.ref.name
	case t.ref.explicit:
		return "@@session." + t.ref.name
	}
	return "@@" + t.ref.name
}

type rhs struct {
	kind byte // l d r
	v    val
	t    target
}

func (x rhs) sexp() string {
	switch x.kind {
	case 'l':
		return hx.List("lit", x.v.sexp())
	case 'd':
		return "(dflt)"
	}
	return hx.List("ref", x.t.sexp())
}

type asg struct {
	t target
	r rhs
}

type stmt struct {
	kind  string // new | set | names | get | getp
	sid   int
	asgs  []asg // names: the expansion (what the oracle reasons about)
	refs  []target
	pname string
	nrhs  rhs // names: the right-hand side of SET NAMES
}

func (s stmt) sexp() string {
	switch s.kind {
	case "new":
		return fmt.Sprintf("(new %d)", s.sid)
	case "set":
		parts := []string{"set", strconv.Itoa(s.sid)}
		for _, a := range s.asgs {
			parts = append(parts, hx.List("asg", a.t.sexp(), a.r.sexp()))
		}
		return hx.List(parts...)
	case "names":
		return hx.List("names", strconv.Itoa(s.sid), s.nrhs.sexp())
	case "getp":
		return hx.List("getp", hx.HexS(s.pname))
	}
	parts := []string{"get", strconv.Itoa(s.sid)}
	for _, t := range s.refs {
		parts = append(parts, t.sexp())
	}
	return hx.List(parts...)
}

// ---------------------------------------------------------------------------------------------
// Running a history on the real engine.

type world struct {
	e         *eng.Eng
	reg       *registry
	sess      map[int]*sql.Context
	msess     map[int]*memory.Session
	order     []int
	persisted memory.GlobalsMap
	connID    uint32
}

var connCounter uint32 = 5000

func newWorld(e *eng.Eng, reg *registry) *world {
	variables.InitSystemVariables() // every variable back at its registered default
	return &world{e: e, reg: reg, sess: map[int]*sql.Context{}, msess: map[int]*memory.Session{}, persisted: memory.GlobalsMap{}}
}

func (w *world) newSession(sid int) {
	connCounter++
	bs := sql.NewBaseSessionWithClientServer("localhost:3306", sql.Client{Address: "localhost", User: "root"}, connCounter)
	ms := memory.NewSession(bs, w.e.Pro).SetGlobals(w.persisted)
	ctx := sql.NewContext(context.Background(), sql.WithSession(ms))
	ctx.SetCurrentDatabase("d")
	if _, ok := w.sess[sid]; !ok {
		w.order = append(w.order, sid)
	}
	w.sess[sid] = ctx
	w.msess[sid] = ms
}

func errClass(err error) string {
	switch {
	case sql.ErrUnknownSystemVariable.Is(err):
		return "unknown"
	case sql.ErrSystemVariableGlobalOnly.Is(err):
		return "globalonly"
	case sql.ErrSystemVariableSessionOnly.Is(err):
		return "sessiononly"
	case sql.ErrSystemVariableReadOnly.Is(err):
		return "readonly"
	case sql.ErrInvalidSystemVariableValue.Is(err), sql.ErrInvalidSetValue.Is(err), sql.ErrConvertingToSet.Is(err), sql.ErrTooLargeForSet.Is(err):
		return "invalid"
	case sql.ErrUnsupportedFeature.Is(err) || strings.HasPrefix(err.Error(), "unsupported feature"):
		return "unsupported"
	case sql.ErrCharSetUnknown.Is(err), sql.ErrCollationUnknown.Is(err):
		return "charset"
	}
	return "other"
}

// ratText renders a decimal / float text as the exact fraction m/10^s in lowest decimal terms.
func ratText(t string) string {
	r, ok := new(big.Rat).SetString(t)
	if !ok {
		return "?" + t
	}
	// find the smallest s with r*10^s integral
	s := 0
	x := new(big.Rat).Set(r)
	ten := big.NewRat(10, 1)
	for !x.IsInt() && s < 400 {
		x.Mul(x, ten)
		s++
	}
	if !x.IsInt() {
		return "?" + t
	}
	p := new(big.Int).Exp(big.NewInt(10), big.NewInt(int64(s)), nil)
	return x.Num().String() + "/" + p.String()
}

func cellObs(text, typ string) string {
	switch {
	case typ == "system_double":
		return ratText(text) + ":sys"
	case strings.HasPrefix(typ, "system_"):
		return text + ":sys"
	case typ == "double" && text != "NULL":
		return ratText(text) + ":double"
	}
	return text + ":" + typ
}

func (w *world) query(sid int, q string) *eng.Res {
	return w.e.Query(eng.SameSession(w.sess[sid]), q)
}

// exec runs one statement and returns its canonical observation.
func (w *world) exec(s stmt, text string) string {
	switch s.kind {
	case "new":
		w.newSession(s.sid)
		return "ok"
	case "getp":
		v, ok := w.persisted[s.pname]
		if !ok {
			return "row(none:persisted)"
		}
		return "row(" + w.renderStored(s.pname, v) + ":persisted)"
	}
	r := w.query(s.sid, text)
	switch {
	case r.Panic != "":
		return "crash:" + r.Panic
	case r.Timeout:
		return "timeout"
	case r.Err != nil:
		return "err:" + errClass(r.Err)
	}
	if s.kind == "set" || s.kind == "names" {
		return "ok"
	}
	if len(r.Rows) != 1 {
		return fmt.Sprintf("rows=%d", len(r.Rows))
	}
	cells := make([]string, len(r.Rows[0]))
	for i, c := range r.Rows[0] {
		cells[i] = cellObs(c, r.Types[i])
	}
	return "row(" + strings.Join(cells, "|") + ")"
}

// renderStored renders a stored Go value of variable name the way a client would see it.
func (w *world) renderStored(name string, v interface{}) string {
	sv, _, ok := sql.SystemVariables.GetGlobal(name)
	if !ok {
		return fmt.Sprintf("?%v", v)
	}
	if st, ok := sv.GetType().(sql.SetType); ok {
		if bits, ok := v.(uint64); ok {
			s, err := st.BitsToString(bits)
			if err != nil {
				return "?bits"
			}
			return s
		}
	}
	if f, ok := v.(float64); ok {
		return ratText(strconv.FormatFloat(f, 'f', -1, 64))
	}
	return fmt.Sprint(v)
}

func sqlOf(r *hx.Rand, reg *registry, s stmt) string {
	switch s.kind {
	case "set":
		parts := make([]string, len(s.asgs))
		for i, a := range s.asgs {
			_, known := reg.byName[a.t.ref.name]
			l := a.t.lhs(r, i == 0, known)
			var rv string
			switch a.r.kind {
			case 'l':
				rv = a.r.v.sql(r)
			case 'd':
				rv = "DEFAULT"
			default:
				rv = a.r.t.expr()
			}
			parts[i] = l + " = " + rv
		}
		return "SET " + strings.Join(parts, ", ")
	case "names":
		switch s.nrhs.kind {
		case 'd':
			return "SET NAMES DEFAULT"
		case 'l':
			if s.nrhs.v.k == 's' {
				if identLike(s.nrhs.v.str) && r.Bool() {
					return "SET NAMES " + s.nrhs.v.str
				}
				return "SET NAMES '" + s.nrhs.v.str + "'"
			}
		}
		return "SET NAMES " + s.nrhs.v.sql(r)
	case "get":
		parts := make([]string, len(s.refs))
		for i, t := range s.refs {
			parts[i] = t.expr()
		}
		return "SELECT " + strings.Join(parts, ", ")
	}
	return ""
}

func identLike(x string) bool {
	if x == "" || (x[0] >= '0' && x[0] <= '9') || strings.EqualFold(x, "default") || strings.EqualFold(x, "binary") {
		return false
	}
	for _, c := range x {
		if !(c >= 'a' && c <= 'z' || c >= 'A' && c <= 'Z' || c >= '0' && c <= '9' || c == '_') {
			return false
		}
	}
	return true
}

// snapshot: the whole observable variable state for the focus names, through the Go API.
func (w *world) snapshot(names []string, unames []string) map[string]string {
	m := map[string]string{}
	for _, n := range names {
		if _, v, ok := sql.SystemVariables.GetGlobal(n); ok {
			m["g:"+n] = w.renderStored(n, v)
		}
		if v, ok := w.persisted[n]; ok {
			m["p:"+n] = w.renderStored(n, v)
		}
		for _, sid := range w.order {
			if v, err := w.sess[sid].Session.GetSessionVariable(w.sess[sid], n); err == nil {
				m[fmt.Sprintf("s:%d:%s", sid, n)] = w.renderStored(n, v)
			}
		}
	}
	for _, u := range unames {
		for _, sid := range w.order {
			t, v, _ := w.sess[sid].Session.GetUserVariable(w.sess[sid], u)
			if t != nil {
				m[fmt.Sprintf("u:%d:%s", sid, u)] = fmt.Sprintf("%v:%s", v, t.String())
			}
		}
	}
	return m
}

type oracleFail struct{ tag, desc string }

func diffKeys(a, b map[string]string, keep func(k string) bool) []string {
	var out []string
	for k, v := range a {
		if keep(k) && b[k] != v {
			out = append(out, fmt.Sprintf("%s: %s -> %s", k, v, b[k]))
		}
	}
	for k, v := range b {
		if _, ok := a[k]; !ok && keep(k) {
			out = append(out, fmt.Sprintf("%s: <unset> -> %s", k, v))
		}
	}
	sort.Strings(out)
	return out
}

// runHistory executes h, returns the observation string, statistics and model-free oracle failures.
func runHistory(e *eng.Eng, reg *registry, r *hx.Rand, h []stmt, out *hx.Out) (obs string, nontrivial bool, fails []oracleFail, texts []string) {
	w := newWorld(e, reg)
	nameSet, unameSet := map[string]bool{}, map[string]bool{}
	for _, s := range h {
		for _, a := range s.asgs {
			for _, t := range []target{a.t, a.r.t} {
				if t.user {
					unameSet[strings.ToLower(t.name)] = true
				} else if t.ref.name != "" {
					nameSet[t.ref.name] = true
				}
			}
		}
		for _, t := range s.refs {
			if !t.user {
				nameSet[t.ref.name] = true
			}
		}
	}
	for n := range nameSet { // the counterpart of a coupled variable is watched too
		if o, ok := pairOf[n]; ok {
			nameSet[o] = true
		}
	}
	ustr := map[string]string{} // user variables currently holding a string literal assigned by this history
	var names, unames []string
	for n := range nameSet {
		if _, ok := reg.byName[n]; ok {
			names = append(names, n)
		}
	}
	for n := range unameSet {
		unames = append(unames, n)
	}
	sort.Strings(names)
	sort.Strings(unames)

	var parts []string
	okSets, sessions := 0, 0
	for _, s := range h {
		text := sqlOf(r, reg, s)
		texts = append(texts, fmt.Sprintf("[%d] %s %s", s.sid, s.kind, text))
		var before map[string]string
		isSet := s.kind == "set" || s.kind == "names"
		if isSet {
			before = w.snapshot(names, unames)
		}
		o := w.exec(s, text)
		parts = append(parts, o)
		kind := s.kind
		if kind == "names" {
			kind = "set"
		}
		// the string a single assignment hands to a system variable (literal, or a user variable that holds one)
		strOf := func() (vi *varInfo, str string, key string, ok bool) {
			if len(s.asgs) != 1 || s.asgs[0].t.user || s.kind != "set" {
				return nil, "", "", false
			}
			a := s.asgs[0]
			vi = reg.byName[a.t.ref.name]
			if vi == nil {
				return nil, "", "", false
			}
			switch {
			case a.r.kind == 'l' && a.r.v.k == 's':
				str = a.r.v.str
			case a.r.kind == 'r' && a.r.t.user:
				x, has := ustr[fmt.Sprintf("%d:%s", s.sid, strings.ToLower(a.r.t.name))]
				if !has {
					return nil, "", "", false
				}
				str = x
			default:
				return nil, "", "", false
			}
			switch a.t.ref.scope {
			case "session":
				key = fmt.Sprintf("s:%d:%s", s.sid, vi.Name)
			case "global", "persist":
				key = "g:" + vi.Name
			default:
				key = "p:" + vi.Name
			}
			return vi, str, key, true
		}
		switch kind {
		case "new":
			sessions++
			after := w.snapshot(names, nil)
			for _, n := range names {
				if g, sv := after["g:"+n], after[fmt.Sprintf("s:%d:%s", s.sid, n)]; g != sv {
					fails = append(fails, oracleFail{"-", fmt.Sprintf("new session %d sees %s = %s but the global value is %s", s.sid, n, sv, g)})
				}
			}
		case "set":
			after := w.snapshot(names, unames)
			mine := fmt.Sprintf(":%d:", s.sid)
			for _, a := range s.asgs { // bookkeeping of string-valued user variables
				if a.t.user { // user variables are private to the session
					uk := fmt.Sprintf("%d:%s", s.sid, strings.ToLower(a.t.name))
					delete(ustr, uk)
					if o == "ok" && len(s.asgs) == 1 && a.r.kind == 'l' && a.r.v.k == 's' {
						ustr[uk] = a.r.v.str
					}
				}
			}
			if o != "ok" {
				if vi, str, _, ok := strOf(); ok {
					out.Stat("string-set:" + vi.Kind + ":rejected")
					fails = append(fails, stringOracle(vi, str, false, o, "", text)...)
				}
				out.Stat("set:" + strings.SplitN(o, "(", 2)[0])
				if d := diffKeys(before, after, func(string) bool { return true }); len(d) > 0 {
					// classification by the shape of the statement, not by "whatever failed"
					tag := "-"
					onlyPersisted := true
					for _, x := range d {
						if !strings.HasPrefix(x, "p:") {
							onlyPersisted = false
						}
					}
					hasPersist := false
					for _, a := range s.asgs {
						if !a.t.user && (a.t.ref.scope == "persist" || a.t.ref.scope == "persistonly") {
							hasPersist = true
						}
					}
					switch {
					case len(s.asgs) > 1:
						tag = "multi_assign_partial_effect"
					case hasPersist && onlyPersisted:
						tag = "persist_before_checks"
					}
					fails = append(fails, oracleFail{tag, fmt.Sprintf("%s failed (%s) but changed %v", text, o, d)})
				}
				continue
			}
			okSets++
			out.Stat("set:ok")
			sessionOnly, anyGlobal := true, false
			for _, a := range s.asgs {
				if !a.t.user && a.t.ref.scope != "session" {
					sessionOnly = false
					anyGlobal = true
				}
			}
			if sessionOnly {
				if d := diffKeys(before, after, func(k string) bool { return !strings.Contains(k, mine) }); len(d) > 0 {
					fails = append(fails, oracleFail{"-", fmt.Sprintf("%s in session %d changed state outside that session: %v", text, s.sid, d)})
				}
			}
			if anyGlobal {
				if d := diffKeys(before, after, func(k string) bool { return strings.HasPrefix(k, "s:") && !strings.Contains(k, mine) }); len(d) > 0 {
					fails = append(fails, oracleFail{"-", fmt.Sprintf("%s changed session values of other sessions: %v", text, d)})
				}
			}
			// a SET whose targets are all GLOBAL / PERSIST / PERSIST_ONLY changes no session value at all — not
			// even in the session that issued it
			noSession := len(s.asgs) > 0
			for _, a := range s.asgs {
				if a.t.user || a.t.ref.scope == "session" {
					noSession = false
				}
			}
			if noSession {
				if d := diffKeys(before, after, func(k string) bool { return strings.HasPrefix(k, "s:") }); len(d) > 0 {
					fails = append(fails, oracleFail{"-", fmt.Sprintf("%s (no SESSION target) changed session values: %v", text, d)})
				}
			}
			// after a successful single assignment to one half of a coupled pair, both halves name the same
			// character set in the scope that was assigned
			if len(s.asgs) == 1 && !s.asgs[0].t.user {
				a := s.asgs[0]
				if other, ok := pairOf[a.t.ref.name]; ok && reg.byName[a.t.ref.name] != nil && !reg.byName[a.t.ref.name].Special {
					prefix := "g:"
					switch a.t.ref.scope {
					case "session":
						prefix = fmt.Sprintf("s:%d:", s.sid)
					case "persistonly":
						prefix = "p:"
					}
					cs, co := after[prefix+a.t.ref.name], after[prefix+other]
					if strings.HasPrefix(a.t.ref.name, "collation_") {
						cs, co = co, cs
					}
					if !pairConsistent(cs, co) {
						fails = append(fails, oracleFail{"-", fmt.Sprintf("after %s the pair is inconsistent in the assigned scope: character set %q, collation %q", text, cs, co)})
					}
				}
			}
			if vi, str, key, ok := strOf(); ok {
				out.Stat("string-set:" + vi.Kind + ":accepted")
				fails = append(fails, stringOracle(vi, str, true, o, after[key], text)...)
			}
			// a single integer / decimal literal must read back as written (or be rejected)
			if len(s.asgs) == 1 && !s.asgs[0].t.user && s.asgs[0].r.kind == 'l' {
				a := s.asgs[0]
				vi := reg.byName[a.t.ref.name]
				if vi != nil && (vi.Kind == "int" || vi.Kind == "uint") {
					var key string
					switch a.t.ref.scope {
					case "session":
						key = fmt.Sprintf("s:%d:%s", s.sid, vi.Name)
					case "global", "persist":
						key = "g:" + vi.Name
					default:
						key = "p:" + vi.Name
					}
					got := after[key]
					switch a.r.v.k {
					case 'i':
						if want := strconv.FormatInt(a.r.v.i, 10); got != want {
							fails = append(fails, oracleFail{"int_uint_reinterpreted", fmt.Sprintf("%s stored %s", text, got)})
						}
					case 'u':
						if want := strconv.FormatUint(a.r.v.u, 10); got != want {
							fails = append(fails, oracleFail{"int_uint_reinterpreted", fmt.Sprintf("%s stored %s", text, got)})
						}
					case 'd':
						if want := decText(a.r.v.m, a.r.v.sc); ratText(got) != ratText(want) {
							tag := "-"
							if vi.Kind == "uint" {
								tag = "uint_decimal_rounded"
							}
							fails = append(fails, oracleFail{tag, fmt.Sprintf("%s stored %s", text, got)})
						}
					}
				}
			}
			// after SET GLOBAL of a GLOBAL-only variable, @@x must be the new value in this session too
			for _, a := range s.asgs {
				if a.t.user || a.t.ref.scope != "global" {
					continue
				}
				vi := reg.byName[a.t.ref.name]
				if vi == nil || vi.Scope != "global" {
					continue
				}
				rr := w.query(s.sid, "SELECT @@"+vi.Name+", @@global."+vi.Name)
				if rr.Err == nil && len(rr.Rows) == 1 && rr.Rows[0][0] != rr.Rows[0][1] {
					fails = append(fails, oracleFail{"global_only_stale_read", fmt.Sprintf("after %s: @@%s = %s but @@global.%s = %s", text, vi.Name, rr.Rows[0][0], vi.Name, rr.Rows[0][1])})
				}
			}
		}
	}
	return strings.Join(parts, ";"), okSets >= 1 && sessions >= 2, fails, texts
}

// ---------------------------------------------------------------------------------------------
// Generators.

const maxI64 = int64(^uint64(0) >> 1)

var strAlphabet = "abcXYZ019_-. "

func randStr(r *hx.Rand, max int) string {
	n := r.Intn(max + 1)
	b := make([]byte, n)
	for i := range b {
		b[i] = strAlphabet[r.Intn(len(strAlphabet))]
	}
	return string(b)
}

func mixCase(r *hx.Rand, s string) string {
	switch r.Intn(3) {
	case 0:
		return strings.ToLower(s)
	case 1:
		return strings.ToUpper(s)
	}
	return s
}

func iv(i int64) val            { return val{k: 'i', i: i} }
func uv(u uint64) val           { return val{k: 'u', u: u} }
func dv(m int64, sc int) val    { return val{k: 'd', m: m, sc: sc} }
func fv(m int64, sc int) val    { return val{k: 'f', m: m, sc: sc} }
func sv(s string) val           { return val{k: 's', str: s} }
func bv(b bool) val             { return val{k: 'b', b: b} }
func parseI(s string) *big.Int  { x, _ := new(big.Int).SetString(s, 10); return x }
func fitsI64(x *big.Int) bool   { return x.IsInt64() }
func fitsU64(x *big.Int) bool   { return x.IsUint64() }
func intVal(x *big.Int) (val, bool) {
	switch {
	case fitsI64(x):
		// the literal -9223372036854775808 is not an int64 literal for the parser: keep it out
		if x.Int64() == -maxI64-1 {
			return val{}, false
		}
		return iv(x.Int64()), true
	case fitsU64(x):
		return uv(x.Uint64()), true
	}
	return val{}, false
}

// pool returns candidate values for a variable: valid, boundary, out of range, wrong type.
func pool(r *hx.Rand, v *varInfo) []val {
	common := []val{{k: 'n'}, bv(true), bv(false)}
	var p []val
	add := func(x *big.Int) {
		if y, ok := intVal(x); ok {
			p = append(p, y)
		}
	}
	one := big.NewInt(1)
	switch v.Kind {
	case "bool":
		p = []val{iv(0), iv(1), iv(2), iv(-1), sv("on"), sv("OFF"), sv("True"), sv("false"), sv("yes"), sv(""), dv(10, 1), dv(5, 1), fv(1, 0), fv(5, 1), uv(1 << 63)}
	case "int":
		lo, hi := parseI(v.Lo), parseI(v.Hi)
		add(lo)
		add(hi)
		add(new(big.Int).Sub(lo, one))
		add(new(big.Int).Add(hi, one))
		span := new(big.Int).Sub(hi, lo)
		if span.Sign() > 0 {
			off := new(big.Int).SetUint64(r.U64())
			off.Mod(off, new(big.Int).Add(span, one))
			add(new(big.Int).Add(lo, off))
		}
		p = append(p, iv(-1), iv(0), iv(int64(r.Intn(300))), uv(^uint64(0)), uv(1<<63+uint64(r.Intn(1000))), uv(^uint64(0)-uint64(r.Intn(300))))
		if hi.IsInt64() {
			p = append(p, sv(hi.String()), sv(" "+hi.String()), dv(hi.Int64()%100000*10, 1))
		}
		p = append(p, sv("abc"), sv("+7"), sv("-1"), sv("12x"), sv(""), dv(15, 1), dv(20, 1), fv(3, 0), fv(25, 1), fv(1, 0))
	case "uint":
		lo, hi := parseI(v.Lo), parseI(v.Hi)
		add(lo)
		add(hi)
		add(new(big.Int).Sub(lo, one))
		add(new(big.Int).Add(hi, one))
		span := new(big.Int).Sub(hi, lo)
		if span.Sign() > 0 {
			off := new(big.Int).SetUint64(r.U64())
			off.Mod(off, new(big.Int).Add(span, one))
			add(new(big.Int).Add(lo, off))
		}
		p = append(p, iv(-1), iv(-int64(1+r.Intn(500))), iv(int64(r.Intn(100000))), dv(15, 1), dv(-30, 1), dv(24, 1), dv(20, 1), dv(int64(r.Intn(100000)), 2),
			fv(1, 0), fv(15, 1), fv(100, 1), sv("15"), sv("abc"))
	case "double":
		lo, hi := parseI(v.Lo), parseI(v.Hi)
		add(lo)
		add(new(big.Int).Sub(lo, one))
		if hi.IsInt64() {
			add(hi)
			add(new(big.Int).Add(hi, one))
		}
		p = append(p, iv(int64(r.Intn(5000))), dv(int64(r.Intn(100000)), 2), dv(5, 1), dv(-5, 1), fv(int64(r.Intn(1000)), 1), fv(125, 2), sv("12.5"), sv("7"), sv("-0.25"), sv("abc"), sv(""), sv("1.5x")) // magnitudes stay below 2^53: float64 text is compared as an exact fraction
	case "enum":
		n := len(v.Values)
		p = append(p, iv(0), iv(int64(n-1)), iv(int64(n)), iv(-1), iv(int64(r.Intn(n))), dv(10, 1), dv(5, 1), fv(0, 0), uv(^uint64(0)), sv("nosuch"), sv(""))
		for i := 0; i < 3; i++ {
			p = append(p, sv(mixCase(r, v.Values[r.Intn(n)])))
		}
	case "set":
		n := len(v.Values)
		all := uint64(1)<<uint(n) - 1
		for i := 0; i < 4; i++ {
			k := 1 + r.Intn(3)
			var els []string
			for j := 0; j < k; j++ {
				switch r.Intn(8) {
				case 0:
					els = append(els, "")
				case 1:
					els = append(els, strconv.Itoa(1<<uint(r.Intn(n))))
				case 2:
					els = append(els, mixCase(r, v.Values[r.Intn(n)])+" ")
				default:
					els = append(els, mixCase(r, v.Values[r.Intn(n)]))
				}
			}
			p = append(p, sv(strings.Join(els, ",")))
		}
		p = append(p, sv(""), sv("nosuch"), sv(v.Values[0]+",nosuch"), sv(" "+v.Values[0]), sv("3"), sv("0"))
		{
			p = append(p, iv(0), iv(int64(all)), iv(int64(all)+1), iv(int64(r.Intn(int(all)+1))), iv(-1), dv(10, 1), dv(15, 1), fv(2, 0), uv(^uint64(0)))
		}
	case "string":
		p = append(p, sv(randStr(r, 8)), sv(""), sv("x"), iv(5), dv(15, 1), fv(1, 0))
	}
	if v.Allowed != "" && csTab != nil {
		p = csPool(r, csTab, v.Allowed)
	}
	p = append(p, common...)
	if intSpecial[v.Name] { // integer literals of these names are rewritten by the planbuilder (sql_mode bitmask, collation ids, lc_time_names)
		q := p[:0]
		for _, x := range p {
			if x.k != 'i' && x.k != 'u' {
				q = append(q, x)
			}
		}
		p = q
	}
	return p
}

func sessionRef(name string) target { return target{ref: sysRef{scope: "session", name: name}} }
func explicitRef(name string) target {
	return target{ref: sysRef{scope: "session", explicit: true, name: name}}
}
func globalRef(name string) target { return target{ref: sysRef{scope: "global", explicit: true, name: name}} }

func setStmt(sid int, as ...asg) stmt { return stmt{kind: "set", sid: sid, asgs: as} }
func getStmt(sid int, ts ...target) stmt {
	return stmt{kind: "get", sid: sid, refs: ts}
}
func lit(t target, v val) asg { return asg{t: t, r: rhs{kind: 'l', v: v}} }

// systematic: one variable, n values, two sessions watching, a third one created at the end.
func systematic(r *hx.Rand, v *varInfo, n int) []stmt {
	h := []stmt{{kind: "new", sid: 1}, {kind: "new", sid: 2}}
	p := pool(r, v)
	// a deterministic prefix of the pool (bounds) and then random picks
	for i := 0; i < n; i++ {
		var x val
		if i < 4 && i < len(p) {
			x = p[i]
		} else {
			x = hx.Pick(r, p)
		}
		scope := "session"
		switch v.Scope {
		case "global":
			scope = "global"
			if r.Chance(1, 6) {
				scope = "session"
			}
		case "session":
			if r.Chance(1, 6) {
				scope = "global"
			}
		default:
			if r.Chance(1, 2) {
				scope = "global"
			}
		}
		t := target{ref: sysRef{scope: scope, explicit: r.Chance(1, 4), name: v.Name}}
		h = append(h, setStmt(1, lit(t, x)))
		h = append(h, getStmt(1, sessionRef(v.Name), globalRef(v.Name)))
		h = append(h, getStmt(2, sessionRef(v.Name), globalRef(v.Name)))
	}
	h = append(h, stmt{kind: "new", sid: 3}, getStmt(3, sessionRef(v.Name), globalRef(v.Name)), getStmt(1, explicitRef(v.Name)))
	return h
}

func randomHistory(r *hx.Rand, reg *registry, usable []*varInfo) []stmt {
	nf := 1 + r.Intn(3)
	focus := make([]*varInfo, nf)
	for i := range focus {
		focus[i] = hx.Pick(r, usable)
	}
	unames := []string{"u", "V", "w1"}
	h := []stmt{{kind: "new", sid: 1}}
	if r.Chance(2, 3) {
		h = append(h, stmt{kind: "new", sid: 2})
	}
	live := func() []int {
		seen := map[int]bool{}
		var out []int
		for _, s := range h {
			if s.kind == "new" && !seen[s.sid] {
				seen[s.sid] = true
				out = append(out, s.sid)
			}
		}
		return out
	}
	pickName := func() string {
		if r.Chance(1, 25) {
			return "nosuch_variable"
		}
		return hx.Pick(r, focus).Name
	}
	// known: a reference used as a right-hand side must name a registered variable (an unknown
	// `@@x` there is silently turned into the string "@@x" by simplifySetExpr: outside the envelope)
	randRef := func(known bool) target {
		if r.Chance(1, 4) {
			return target{user: true, name: mixCase(r, hx.Pick(r, unames))}
		}
		n := pickName()
		if known {
			n = hx.Pick(r, focus).Name
		}
		switch r.Intn(3) {
		case 0:
			return globalRef(n)
		case 1:
			return explicitRef(n)
		}
		return sessionRef(n)
	}
	steps := 5 + r.Intn(9)
	for i := 0; i < steps; i++ {
		sid := hx.Pick(r, live())
		switch k := r.Intn(10); {
		case k < 6: // SET
			na := 1
			if r.Chance(1, 3) {
				na = 2 + r.Intn(2)
			}
			var as []asg
			for j := 0; j < na; j++ {
				var t target
				if r.Chance(1, 5) {
					t = target{user: true, name: mixCase(r, hx.Pick(r, unames))}
				} else {
					n := pickName()
					scope := hx.Pick(r, []string{"session", "session", "session", "global", "global", "persist", "persistonly"})
					t = target{ref: sysRef{scope: scope, explicit: r.Chance(1, 4), name: n}}
				}
				var x rhs
				switch q := r.Intn(10); {
				case q < 7:
					var pv []val
					if t.user {
						pv = []val{iv(int64(r.Intn(70000)) - 300), iv(int64(r.U64() >> 1)), uv(1<<63 + uint64(r.Intn(99))), dv(int64(r.Intn(100000)), 1+r.Intn(3)) /* a negated decimal literal gets one more digit of precision from the unary minus: kept out */, fv(int64(r.Intn(1000)), r.Intn(3)), sv(randStr(r, 6)), {k: 'n'}, bv(r.Bool())}
					} else if vi, ok := reg.byName[t.ref.name]; ok {
						pv = pool(r, vi)
					} else {
						pv = []val{iv(1), sv("x")}
					}
					x = rhs{kind: 'l', v: hx.Pick(r, pv)}
				case q < 8:
					x = rhs{kind: 'd'}
				default:
					x = rhs{kind: 'r', t: randRef(true)}
					if vi, ok := reg.byName[t.ref.name]; ok && !t.user && vi.Kind == "double" {
						x = rhs{kind: 'd'} // an integer beyond 2^53 copied into a double would be rounded: kept out
					}
				}
				as = append(as, asg{t: t, r: x})
			}
			h = append(h, setStmt(sid, as...))
		case k < 9: // SELECT
			n := 1 + r.Intn(3)
			var ts []target
			for j := 0; j < n; j++ {
				ts = append(ts, randRef(false))
			}
			h = append(h, getStmt(sid, ts...))
		default:
			h = append(h, stmt{kind: "new", sid: 2 + r.Intn(3)})
		}
	}
	// closing matrix: every focus variable in every session, the persisted map, the user variables
	for _, f := range focus {
		h = append(h, stmt{kind: "getp", pname: f.Name})
		for _, sid := range live() {
			h = append(h, getStmt(sid, sessionRef(f.Name), globalRef(f.Name)))
		}
	}
	for _, sid := range live() {
		h = append(h, getStmt(sid, target{user: true, name: "u"}, target{user: true, name: "v"}, target{user: true, name: "w1"}))
	}
	return h
}

func corpus() [][]stmt {
	g := func(n string) target { return target{ref: sysRef{scope: "global", name: n}} }
	s := func(n string) target { return target{ref: sysRef{scope: "session", name: n}} }
	p := func(n string) target { return target{ref: sysRef{scope: "persist", name: n}} }
	two := []stmt{{kind: "new", sid: 1}, {kind: "new", sid: 2}}
	app := func(xs ...stmt) []stmt { return append(append([]stmt{}, two...), xs...) }
	return [][]stmt{
		// global_only_stale_read
		app(setStmt(1, lit(g("max_connections"), iv(500))), getStmt(1, sessionRef("max_connections"), globalRef("max_connections")), getStmt(2, sessionRef("max_connections")),
			stmt{kind: "new", sid: 3}, getStmt(3, sessionRef("max_connections"))),
		// multi_assign_partial_effect
		app(setStmt(1, lit(s("sql_select_limit"), iv(10)), lit(s("max_error_count"), iv(-5))), getStmt(1, sessionRef("sql_select_limit"), sessionRef("max_error_count"))),
		// plan-time failure of a later assignment: no effect
		app(setStmt(1, lit(s("sql_select_limit"), iv(10)), lit(s("max_error_count"), sv("abc"))), getStmt(1, sessionRef("sql_select_limit"))),
		// int_uint_reinterpreted
		app(setStmt(1, lit(g("delayed_insert_timeout"), uv(^uint64(0)))), getStmt(1, globalRef("delayed_insert_timeout"))),
		app(setStmt(1, lit(s("max_join_size"), iv(-1))), getStmt(1, sessionRef("max_join_size"))),
		// uint_decimal_rounded
		app(setStmt(1, lit(s("max_join_size"), dv(15, 1))), getStmt(1, sessionRef("max_join_size")), setStmt(1, lit(s("max_join_size"), dv(-30, 1))), getStmt(1, sessionRef("max_join_size"))),
		// persist_before_checks
		app(setStmt(1, lit(p("admin_port"), iv(100))), stmt{kind: "getp", pname: "admin_port"}, getStmt(1, globalRef("admin_port"))),
		app(setStmt(1, lit(p("max_connections"), iv(100))), stmt{kind: "getp", pname: "max_connections"}, getStmt(2, globalRef("max_connections"))),
		// isolation and new sessions
		app(setStmt(1, lit(s("autocommit"), iv(0))), getStmt(1, sessionRef("autocommit"), globalRef("autocommit")), getStmt(2, sessionRef("autocommit")),
			setStmt(2, lit(g("autocommit"), bv(false))), getStmt(1, sessionRef("autocommit"), globalRef("autocommit")), stmt{kind: "new", sid: 3}, getStmt(3, sessionRef("autocommit"))),
		// user variables
		app(setStmt(1, lit(target{user: true, name: "u"}, iv(5)), lit(target{user: true, name: "V"}, sv("abc"))), getStmt(1, target{user: true, name: "U"}, target{user: true, name: "v"}), getStmt(2, target{user: true, name: "u"})),
	}
}

var intSpecial = map[string]bool{}

// csTab: the dumped character-set tables (set by run).
var csTab *csTables

func run(a hx.RunArgs) error {
	facts, err := astFacts(a.Repo)
	if err != nil {
		return err
	}
	for _, n := range facts.planIntSpecial {
		intSpecial[n] = true
	}
	reg, err := dumpRegistry(facts.specialSet())
	if err != nil {
		return err
	}
	if len(reg.vars) < 50 {
		return fmt.Errorf("registry dump has only %d variables", len(reg.vars))
	}
	out := hx.NewOut(a.OutDir)
	defer out.Close()
	out.Rule = "one case = one multi-session history over a freshly initialised registry: (a) for every non-special registered variable a systematic history " +
		"(valid, boundary, out-of-range and wrong-type values through SET SESSION/GLOBAL in session 1, @@x/@@global.x read in sessions 1, 2 and a later session 3), " +
		"(b) random histories over 1-3 variables with multi-assignment SET, PERSIST/PERSIST_ONLY, DEFAULT, @@x/@u right-hand sides, user variables and new sessions, " +
		"closed by a read of every focus variable in every session and of the persisted map, " +
		"(c) numstr: every numeric / enum / set variable is assigned quoted strings built around values of its own range (zero-padded, signed, blank-padded, 0x/0b/0o-prefixed, " +
		"underscored, exponent / point / hexadecimal-float forms, garbage) as a literal and through a user variable, read back in three sessions, " +
		"(d) coupled: the character-set / collation family (validators, character_set_server/collation_server and character_set_connection/collation_connection coupling, " +
		"catalog reads of character_set_database/collation_database, SET NAMES) in SESSION / GLOBAL / PERSIST scope, both halves of a pair read in the issuing session, another " +
		"session and a new session; non-trivial = at least one SET succeeded and at least two sessions exist"
	r := hx.NewRand(a.Seed).Fork() // NewRand(s+1) is NewRand(s) shifted by one draw: only forks of the first draw are used
	e := eng.New("d")

	csTab, _, err = dumpCsTables(a.Repo)
	if err != nil {
		return err
	}
	// usable: the variables of the general streams; csUsable: the character-set family (validators,
	// coupled pairs, catalog reads), driven by its own streams below with its own generator state
	var usable, csUsable []*varInfo
	for i := range reg.vars {
		// a name with a dot (dragnet.log_error_filter_rules) cannot be written in SQL: `SET GLOBAL a.b` is a
		// qualified column for the parser
		if !reg.vars[i].Special && !strings.Contains(reg.vars[i].Name, ".") {
			if reg.vars[i].Allowed != "" || reg.vars[i].Couple != "" || reg.vars[i].HasCat {
				csUsable = append(csUsable, &reg.vars[i])
			} else {
				usable = append(usable, &reg.vars[i])
			}
		}
	}
	out.Extra["registry_size"] = len(reg.vars)
	out.Extra["usable_variables"] = len(usable) + len(csUsable)
	out.Extra["charset_family_variables"] = len(csUsable)

	emit := func(kind string, h []stmt, rr *hx.Rand) {
		parts := make([]string, len(h))
		for i, s := range h {
			parts[i] = s.sexp()
		}
		obs, nontriv, fails, texts := runHistory(e, reg, rr, h, out)
		id := out.Case("(hist "+strings.Join(parts, " ")+")", obs, nontriv)
		out.Stat("history:" + kind)
		out.StatN("statements", len(h))
		if strings.Contains(obs, "crash") {
			out.Stat("crash")
		}
		for _, f := range fails {
			out.OracleFail(id, f.tag, f.desc+"  ["+strings.Join(texts, " ; ")+"]")
		}
	}

	for _, h := range corpus() {
		emit("corpus", h, r.Fork())
	}
	// registry oracle on the real code: the registered default of every variable is accepted by the
	// variable's own Convert (what SET x = DEFAULT would do); a default outside the type is reported
	// with a read of the variable as the case
	ectx := sql.NewEmptyContext()
	for _, en := range variables.VerifRegistry() {
		m, ok := en.Var.(*sql.MysqlSystemVariable)
		if !ok || m.ValueFunction != nil || strings.Contains(en.Key, ".") {
			continue
		}
		if _, ok := m.Type.(sql.SystemVariableType); !ok {
			continue
		}
		if _, _, err := m.Type.Convert(ectx, m.Default); err != nil {
			h := []stmt{{kind: "new", sid: 1}, getStmt(1, globalRef(en.Key))}
			parts := []string{h[0].sexp(), h[1].sexp()}
			obs, _, _, _ := runHistory(e, reg, r.Fork(), h, out)
			id := out.Case("(hist "+strings.Join(parts, " ")+")", obs, false)
			out.Stat("registry:default-rejected")
			out.OracleFail(id, "registry_default_out_of_range", fmt.Sprintf("registered default %v of %s is rejected by the variable's own type: %v", m.Default, en.Key, err))
		}
	}
	nVals, nRand := 6, 700
	if a.Thorough {
		nVals, nRand = 14, 40000
	}
	for _, v := range usable {
		emit("systematic:"+v.Kind, systematic(r.Fork(), v, nVals), r.Fork())
	}
	for i := 0; i < nRand; i++ {
		rr := r.Fork()
		emit("random", randomHistory(rr, reg, usable), rr.Fork())
	}

	// --- streams added for the string-conversion and coupled-pair classes (own generator state: the
	// streams above stay the same sample for a given seed)
	r2 := hx.NewRand(a.Seed*1000003 + 44).Fork()
	for _, h := range numstrCorpus(reg) {
		emit("numstr-corpus", h, r2.Fork())
	}
	for _, h := range coupledCorpus(reg) {
		emit("coupled-corpus", h, r2.Fork())
	}
	nStr, nCoupled, coupledSteps := 5, 40, 8
	if a.Thorough {
		nStr, nCoupled, coupledSteps = 40, 1500, 14
	}
	for _, v := range usable {
		switch v.Kind {
		case "int", "uint", "double", "bool", "enum", "set":
			emit("numstr:"+v.Kind, numstrHistory(r2.Fork(), v, nStr), r2.Fork())
		}
	}
	for _, v := range csUsable {
		emit("systematic:charset", systematic(r2.Fork(), v, nVals), r2.Fork())
	}
	for i := 0; i < nCoupled; i++ {
		rr := r2.Fork()
		emit("coupled", coupledHistory(rr, reg, csTab, coupledSteps), rr.Fork())
	}
	return nil
}
