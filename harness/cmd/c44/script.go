// `c44 script < file` — replay tool for witnesses (not used by check.py).
//
// Lines:  new <sid>            create / replace session <sid> (fresh engine and registry at start)
//         <sid>: <SQL>         run the statement in session <sid>, print the outcome
//         conv <var> <text>    Type.Convert of variable <var> on the Go string <text> (rest of the line, may be empty)
//         # …                  comment
package main

import (
	"bufio"
	"fmt"
	"os"
	"strconv"
	"strings"

	"github.com/dolthub/go-mysql-server/sql"
	"github.com/dolthub/go-mysql-server/verifharness/hx/eng"
)

func scriptMain() {
	e := eng.New("d")
	w := newWorld(e, nil)
	sc := bufio.NewScanner(os.Stdin)
	sc.Buffer(make([]byte, 1<<20), 1<<20)
	for sc.Scan() {
		line := strings.TrimRight(sc.Text(), "\r\n")
		if strings.TrimSpace(line) == "" || strings.HasPrefix(line, "#") {
			continue
		}
		switch {
		case strings.HasPrefix(line, "new "):
			sid, err := strconv.Atoi(strings.TrimSpace(line[4:]))
			if err != nil {
				fmt.Println("bad line:", line)
				continue
			}
			w.newSession(sid)
			fmt.Printf("new %d\n", sid)
		case strings.HasPrefix(line, "conv "):
			rest := line[5:]
			name, text, _ := strings.Cut(rest, " ")
			sv, _, ok := sql.SystemVariables.GetGlobal(name)
			if !ok {
				fmt.Println("unknown variable", name)
				continue
			}
			v, _, err := sv.GetType().Convert(sql.NewEmptyContext(), text)
			if err != nil {
				fmt.Printf("conv %s %q -> error %v\n", name, text, err)
			} else {
				fmt.Printf("conv %s %q -> %T(%v)\n", name, text, v, v)
			}
		default:
			sidText, q, ok := strings.Cut(line, ":")
			sid, err := strconv.Atoi(strings.TrimSpace(sidText))
			if !ok || err != nil || w.sess[sid] == nil {
				fmt.Println("bad line:", line)
				continue
			}
			q = strings.TrimSpace(q)
			r := w.query(sid, q)
			switch {
			case r.Panic != "":
				fmt.Printf("[%d] %s -> crash: %s\n", sid, q, r.Panic)
			case r.Err != nil:
				fmt.Printf("[%d] %s -> error (%s): %v\n", sid, q, errClass(r.Err), r.Err)
			default:
				var rows []string
				for _, row := range r.Rows {
					rows = append(rows, strings.Join(row, " | "))
				}
				fmt.Printf("[%d] %s -> ok %s  types=%v\n", sid, q, strings.Join(rows, " ; "), r.Types)
			}
		}
	}
}
