// Facts about the two code paths the C05-specific engine streams exercise:
//
//	simplifyReturns   what each rewrite case of analyzer.simplifyExpression (BETWEEN / OR / AND / NOT) can
//	                  return, in source order — Props/C05.lean proves every listed shape value-preserving
//	                  (simplify_* lemmas) and that folding an empty literal range to FALSE would not be;
//	idxIter*          the state, the loop header, the exits of the loop and the position updates of
//	                  memory.indexScanRowIter.Next — the shape Gms/Model/MemIdxIter.lean transliterates
//	                  (walk every entry; the only exits are a match, an error, the end of the index).
package main

import (
	"fmt"
	"go/ast"
	"strings"

	"github.com/dolthub/go-mysql-server/verifharness/hx"
)

func leanPairs(ps [][2]string) string {
	rows := make([]string, len(ps))
	for i, p := range ps {
		rows[i] = fmt.Sprintf("(%s, %s)", hx.LeanString(p[0]), hx.LeanString(p[1]))
	}
	return "[\n  " + strings.Join(rows, ",\n  ") + "]"
}

// returnsOf lists, in source order, the first result of every return statement below n (function
// literals excluded): the constructor calls it is built from, or its source text.
func returnsOf(src *hx.Src, body []ast.Stmt) []string {
	var out []string
	for _, st := range body {
		ast.Inspect(st, func(x ast.Node) bool {
			switch y := x.(type) {
			case *ast.FuncLit:
				return false
			case *ast.ReturnStmt:
				if len(y.Results) == 0 {
					out = append(out, "")
					return false
				}
				if _, ok := y.Results[0].(*ast.CallExpr); ok {
					out = append(out, strings.Join(callNames(y.Results[0]), " "))
				} else {
					out = append(out, src.Text(y.Results[0]))
				}
				return false
			}
			return true
		})
	}
	return out
}

func extractSimplify(src *hx.Src, lf *hx.LeanFile) error {
	fd, err := src.Func("", "simplifyExpression")
	if err != nil {
		return err
	}
	var sw *ast.TypeSwitchStmt
	ast.Inspect(fd.Body, func(x ast.Node) bool {
		if t, ok := x.(*ast.TypeSwitchStmt); ok && sw == nil {
			sw = t
			return false
		}
		return true
	})
	if sw == nil {
		return fmt.Errorf("simplifyExpression: no type switch found")
	}
	want := map[string]bool{"Between": true, "Or": true, "And": true, "Not": true}
	var rows []string
	var kinds []string
	for _, c := range sw.Body.List {
		cc := c.(*ast.CaseClause)
		for _, t := range cc.List {
			name := ""
			if st, ok := t.(*ast.StarExpr); ok {
				if se, ok := st.X.(*ast.SelectorExpr); ok {
					name = se.Sel.Name
				}
			} else if se, ok := t.(*ast.SelectorExpr); ok {
				name = se.Sel.Name
			}
			kinds = append(kinds, name)
			if !want[name] {
				continue
			}
			if len(cc.List) != 1 {
				return fmt.Errorf("simplifyExpression: case %s shares its clause with other types", name)
			}
			rs := returnsOf(src, cc.Body)
			qs := make([]string, len(rs))
			for i, r := range rs {
				qs[i] = hx.LeanString(r)
			}
			rows = append(rows, fmt.Sprintf("(%s, [%s])", hx.LeanString(name), strings.Join(qs, ", ")))
			delete(want, name)
		}
	}
	if len(want) != 0 {
		return fmt.Errorf("simplifyExpression: rewrite cases not found: %v", want)
	}
	lf.Comment("simplifyExpression: (expression kind, first result of each return of its case, in source order)")
	lf.Raw("def simplifyReturns : List (String × List String) := [\n  " + strings.Join(rows, ",\n  ") + "]\n")
	lf.Comment("simplifyExpression: the expression kinds with a case of their own, in source order")
	lf.DefStringList("simplifyKinds", kinds)
	return nil
}

func extractIdxIter(src *hx.Src, lf *hx.LeanFile) error {
	// state of the iterator
	var fields []string
	for _, d := range src.File.Decls {
		gd, ok := d.(*ast.GenDecl)
		if !ok {
			continue
		}
		for _, sp := range gd.Specs {
			ts, ok := sp.(*ast.TypeSpec)
			if !ok || ts.Name.Name != "indexScanRowIter" {
				continue
			}
			st, ok := ts.Type.(*ast.StructType)
			if !ok {
				return fmt.Errorf("indexScanRowIter is not a struct")
			}
			for _, f := range st.Fields.List {
				for _, n := range f.Names {
					fields = append(fields, n.Name)
				}
			}
		}
	}
	if len(fields) == 0 {
		return fmt.Errorf("memory/table.go: struct indexScanRowIter not found")
	}
	fd, err := src.Func("indexScanRowIter", "Next")
	if err != nil {
		return err
	}
	var loop *ast.ForStmt
	for _, st := range fd.Body.List {
		if f, ok := st.(*ast.ForStmt); ok {
			if loop != nil {
				return fmt.Errorf("indexScanRowIter.Next: more than one loop")
			}
			loop = f
		}
	}
	if loop == nil || loop.Cond == nil || loop.Post == nil {
		return fmt.Errorf("indexScanRowIter.Next: `for ; cond; post` loop not found")
	}
	recv := fd.Recv.List[0].Names[0].Name
	var exits, moves [][2]string
	var walk func(st ast.Stmt, cond string) error
	walkList := func(l []ast.Stmt, cond string) error {
		for _, st := range l {
			if err := walk(st, cond); err != nil {
				return err
			}
		}
		return nil
	}
	isPos := func(e ast.Expr) bool { return src.Text(e) == recv+".i" }
	walk = func(st ast.Stmt, cond string) error {
		switch s := st.(type) {
		case *ast.BlockStmt:
			return walkList(s.List, cond)
		case *ast.IfStmt:
			c := src.Text(s.Cond)
			if cond != "" {
				c = cond + " && " + c
			}
			if err := walkList(s.Body.List, c); err != nil {
				return err
			}
			if s.Else != nil {
				return walk(s.Else, "!("+c+")")
			}
		case *ast.BranchStmt:
			exits = append(exits, [2]string{s.Tok.String(), cond})
		case *ast.ReturnStmt:
			exits = append(exits, [2]string{"return", cond})
		case *ast.AssignStmt:
			for _, l := range s.Lhs {
				if isPos(l) {
					moves = append(moves, [2]string{src.Text(s), cond})
				}
			}
		case *ast.IncDecStmt:
			if isPos(s.X) {
				moves = append(moves, [2]string{src.Text(s), cond})
			}
		case *ast.ExprStmt:
			if strings.Contains(src.Text(s.X), "incrementFunc") {
				moves = append(moves, [2]string{src.Text(s.X), cond})
			}
		case *ast.ForStmt, *ast.RangeStmt, *ast.SwitchStmt, *ast.TypeSwitchStmt, *ast.SelectStmt, *ast.LabeledStmt, *ast.GoStmt, *ast.DeferStmt:
			return fmt.Errorf("indexScanRowIter.Next: unexpected %T inside the scan loop at line %d", st, src.Line(st))
		}
		return nil
	}
	if err := walkList(loop.Body.List, ""); err != nil {
		return err
	}
	// the visiting order set up by the constructor
	cd, err := src.Func("", "newIndexScanRowIter")
	if err != nil {
		return err
	}
	var steps [][2]string
	var cwalk func(st ast.Stmt, cond string)
	cwalk = func(st ast.Stmt, cond string) {
		switch s := st.(type) {
		case *ast.BlockStmt:
			for _, x := range s.List {
				cwalk(x, cond)
			}
		case *ast.IfStmt:
			c := src.Text(s.Cond)
			cwalk(s.Body, c)
			if s.Else != nil {
				cwalk(s.Else, "!("+c+")")
			}
		case *ast.AssignStmt:
			if len(s.Lhs) == 1 && (src.Text(s.Lhs[0]) == "i" || strings.HasSuffix(src.Text(s.Lhs[0]), ".i")) {
				steps = append(steps, [2]string{src.Text(s), cond})
			}
			for _, r := range s.Rhs {
				if fl, ok := r.(*ast.FuncLit); ok {
					for _, x := range fl.Body.List {
						steps = append(steps, [2]string{src.Text(x), cond})
					}
				}
			}
		}
	}
	cwalk(cd.Body, "")
	lf.Comment("memory.indexScanRowIter: fields (the state a lookup iterator carries)")
	lf.DefStringList("idxIterFields", fields)
	lf.Comment("indexScanRowIter.Next: condition and post statement of the scan loop")
	lf.DefString("idxIterLoopCond", src.Text(loop.Cond))
	lf.DefString("idxIterLoopPost", src.Text(loop.Post))
	lf.Comment("indexScanRowIter.Next: every break / continue / return inside the scan loop with the condition guarding it")
	lf.Raw("def idxIterLoopExits : List (String × String) := " + leanPairs(exits) + "\n")
	lf.Comment("indexScanRowIter.Next: every update of the position inside the scan loop with the condition guarding it")
	lf.Raw("def idxIterLoopMoves : List (String × String) := " + leanPairs(moves) + "\n")
	lf.Comment("newIndexScanRowIter: start position and step, with the condition guarding them")
	lf.Raw("def idxIterSetup : List (String × String) := " + leanPairs(steps) + "\n")
	return nil
}
