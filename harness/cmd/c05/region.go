// Region of the known finding join_on_folds_false_beside_subquery, decided on the case. This is the Go
// mirror of lean/Gms/Model/FilterFold.lean (foldE / joinMayFoldFalse / predHasSub): the driver
// re-decides the region on the same terms and refuses a case the harness wrongly puts into it.
package main

import "github.com/dolthub/go-mysql-server/verifharness/sqlgen"

const regionFoldFalseJoin = "join_on_folds_false_beside_subquery"

// the engine's error inside that region
const emptyTableReplanErr = "unknown type for rel output cols: *memo.EmptyTable"

// fold: what analyzer.simplifyExpression MAY turn an expression into (an over-approximation; nothing
// is evaluated): konst – column- and subquery-free; mayT / mayF – a definite TRUE / FALSE literal.
type fold struct{ konst, mayT, mayF bool }

func foldArgs(all bool) fold {
	if all {
		return fold{true, true, true}
	}
	return fold{}
}

func foldOf(e *sqlgen.Expr) fold {
	k := func(i int) bool { return foldOf(e.Args[i]).konst }
	switch e.Op {
	case "lit":
		switch {
		case e.V.Null:
			return fold{konst: true}
		case e.V.IsStr:
			return fold{true, true, true}
		case e.V.I == 0:
			return fold{konst: true, mayF: true}
		}
		return fold{konst: true, mayT: true}
	case "col", "exists", "insub", "scalar":
		return fold{}
	case "and":
		x, y := foldOf(e.Args[0]), foldOf(e.Args[1])
		f, t := x.mayF || y.mayF, x.mayT && y.mayT
		return fold{f || t || (x.konst && y.konst), t, f}
	case "or":
		x, y := foldOf(e.Args[0]), foldOf(e.Args[1])
		t, f := x.mayT || y.mayT, x.mayF && y.mayF
		return fold{f || t || (x.konst && y.konst), t, f}
	case "not":
		x := foldOf(e.Args[0])
		return fold{x.konst, x.mayF, x.mayT}
	case "neg", "isnull", "istrue", "isfalse":
		return foldArgs(k(0))
	case "arith", "cmp", "xor", "coalesce":
		return foldArgs(k(0) && k(1))
	case "between", "ite":
		return foldArgs(k(0) && k(1) && k(2))
	case "in":
		all := k(0)
		for _, x := range e.List {
			all = all && foldOf(x).konst
		}
		return foldArgs(all)
	}
	panic("c05: foldOf: unknown expression op " + e.Op)
}

func joinMayFoldFalse(q *sqlgen.Query) bool {
	if q == nil {
		return false
	}
	if q.Op == "join" && foldOf(q.P).mayF {
		return true
	}
	return joinMayFoldFalse(q.L) || joinMayFoldFalse(q.R)
}

func predHasSub(q *sqlgen.Query) bool {
	if q == nil {
		return false
	}
	if (q.Op == "join" || q.Op == "filter") && sqlgen.HasSubquery(q.P) {
		return true
	}
	return predHasSub(q.L) || predHasSub(q.R)
}

func inFoldFalseJoinRegion(q *sqlgen.Query) bool { return joinMayFoldFalse(q) && predHasSub(q) }
