// C05-specific engine streams (the shared generator harness/sqlgen is left as it is).
//
// Both streams feed the same five statements Q / p / NOT p / p IS NULL / SELECT p,* to tlpCase (Lean
// reference semantics + the two model-free oracles); they differ from the general stream in WHERE the
// predicate is evaluated by the engine:
//
//	index stream   the table carries a PRIMARY KEY and/or single- and multi-column secondary indexes and
//	               the predicate is sargable (comparisons / BETWEEN / IN / IS NULL of index columns with
//	               literals under AND / OR / NOT), so that WHERE p, WHERE NOT p and ON p are answered by an
//	               index access path (range construction + memory.indexScanRowIter / primary-key range
//	               filter / lookup join), while SELECT p,* evaluates p row by row. Rows are dense in a
//	               small value domain, so that for a multi-column index matching and non-matching entries
//	               interleave in index order. Optionally the parts are read in reverse index order.
//	fold stream    the predicate contains sub-predicates the filter-simplification rule
//	               (analyzer.simplifyFilters / simplifyExpression) can rewrite or constant-fold: BETWEEN
//	               with literal bounds in every order (lower > upper: an empty range whose value is still
//	               NULL on a NULL operand), BETWEEN with the same column twice, comparisons of a column
//	               with itself, constant comparisons, literal TRUE / FALSE / NULL operands of AND / OR,
//	               NOT of a literal — always over a nullable operand with at least one NULL row, and under
//	               NOT / IS NULL / IS [NOT] TRUE / OR / inner-join ON, where NULL and FALSE differ.
//
// Subqueries are not generated here (secondary index + correlated subquery on the same table is a known
// defect class of the engine that belongs to C01/C03).
package main

import (
	"fmt"
	"strings"

	"github.com/dolthub/go-mysql-server/verifharness/hx"
	"github.com/dolthub/go-mysql-server/verifharness/sqlgen"
)

type tlpFn func(db *sqlgen.Db, parts [5]*sqlgen.Query, tys []sqlgen.Ty, where string)

func lit(i int) *sqlgen.Expr             { return sqlgen.Lit(sqlgen.Int(int64(i))) }
func null() *sqlgen.Expr                 { return sqlgen.Lit(sqlgen.Null()) }
func col(i int) *sqlgen.Expr             { return sqlgen.Col(0, i) }
func and(a, b *sqlgen.Expr) *sqlgen.Expr { return sqlgen.Bin("and", a, b) }
func or(a, b *sqlgen.Expr) *sqlgen.Expr  { return sqlgen.Bin("or", a, b) }

// topConjunctsHaveCols: every top-level conjunct mentions a column of the joined rows (a constant
// non-TRUE conjunct of ON is dropped by the engine when another conjunct is pushed down — observed
// defect recorded in sqlgen.JoinOn; kept out of the envelope here as well).
func topConjunctsHaveCols(e *sqlgen.Expr) bool {
	if e.Op == "and" {
		return topConjunctsHaveCols(e.Args[0]) && topConjunctsHaveCols(e.Args[1])
	}
	return sqlgen.HasCol(e)
}

// whereParts / onParts: the five statements of a TLP case.
func whereParts(q *sqlgen.Query, p *sqlgen.Expr, n int, wrap func(*sqlgen.Query) *sqlgen.Query) [5]*sqlgen.Query {
	cols := []*sqlgen.Expr{p.Clone()}
	for j := 0; j < n; j++ {
		cols = append(cols, col(j))
	}
	if wrap == nil {
		wrap = func(x *sqlgen.Query) *sqlgen.Query { return x }
	}
	return [5]*sqlgen.Query{q, wrap(sqlgen.Filter(p, q.Clone())), wrap(sqlgen.Filter(sqlgen.Not(p.Clone()), q.Clone())),
		wrap(sqlgen.Filter(sqlgen.Un("isnull", p.Clone()), q.Clone())), sqlgen.Project(cols, q.Clone())}
}

func onParts(l, r *sqlgen.Query, p *sqlgen.Expr, n int) [5]*sqlgen.Query {
	mk := func(on *sqlgen.Expr) *sqlgen.Query { return sqlgen.Join("inner", on, l.Clone(), r.Clone()) }
	cols := []*sqlgen.Expr{p.Clone()}
	for j := 0; j < n; j++ {
		cols = append(cols, col(j))
	}
	cross := mk(lit(1))
	cross.Cross = true
	return [5]*sqlgen.Query{cross, mk(p), mk(sqlgen.Not(p.Clone())), mk(sqlgen.Un("isnull", p.Clone())),
		sqlgen.Project(cols, mk(lit(1)))}
}

func intTys(n int) []sqlgen.Ty { return make([]sqlgen.Ty, n) } // TInt == 0

// ---------------------------------------------------------------------------------------------
// index stream

type idxTable struct {
	pk   []int   // primary-key columns (nil: none)
	keys [][]int // secondary indexes, each an ordered column list
}

const idxLo, idxHi = 0, 3 // value domain of the indexed tables

// genIdxTable draws a table of nc integer columns with a dense small value domain, NULLs in the
// nullable columns, duplicates, and the given index layout.
func genIdxTable(r *hx.Rand, out *hx.Out) (*sqlgen.Table, *idxTable) {
	nc := r.Range(2, 4)
	t := &sqlgen.Table{Tys: intTys(nc), NotNull: make([]bool, nc)}
	it := &idxTable{}
	nr := r.Range(5, 12)
	if r.Chance(1, 12) {
		nr = r.Intn(3)
	}
	switch r.Intn(5) {
	case 0: // single-column primary key
		it.pk = []int{0}
	case 1: // two-column primary key
		it.pk = []int{0, 1}
	}
	for _, c := range it.pk {
		t.NotNull[c] = true
	}
	for j := len(it.pk); j < nc; j++ {
		t.NotNull[j] = r.Chance(1, 5)
	}
	seen := map[string]bool{}
	for i := 0; i < nr; i++ {
		row := make([]sqlgen.Value, nc)
		for j := range row {
			switch {
			case !t.NotNull[j] && r.Chance(1, 7):
				row[j] = sqlgen.Null()
			default:
				row[j] = sqlgen.Int(int64(r.Range(idxLo, idxHi)))
			}
		}
		if len(it.pk) == 1 {
			row[0] = sqlgen.Int(int64(i)) // distinct; the insertion order is shuffled below
		}
		if len(it.pk) == 2 {
			k := fmt.Sprint(row[0].I, ",", row[1].I)
			if seen[k] {
				continue
			}
			seen[k] = true
		}
		t.Rows = append(t.Rows, row)
	}
	for i := len(t.Rows) - 1; i > 0; i-- {
		j := r.Intn(i + 1)
		t.Rows[i], t.Rows[j] = t.Rows[j], t.Rows[i]
	}
	// secondary indexes: one or two, of 1..3 columns (any column order, may include key columns)
	nk := 1
	if r.Chance(1, 3) {
		nk = 2
	}
	if it.pk != nil && r.Chance(1, 3) {
		nk = 0
	}
	for k := 0; k < nk; k++ {
		perm := make([]int, nc)
		for i := range perm {
			perm[i] = i
		}
		for i := nc - 1; i > 0; i-- {
			j := r.Intn(i + 1)
			perm[i], perm[j] = perm[j], perm[i]
		}
		w := []int{1, 2, 2, 2, 3, 3}[r.Intn(6)]
		if w > nc {
			w = nc
		}
		it.keys = append(it.keys, perm[:w])
	}
	var extra strings.Builder
	if it.pk != nil {
		extra.WriteString(", PRIMARY KEY (" + colList(it.pk) + ")")
		out.Stat(fmt.Sprintf("idx:primary-key-%d-col", len(it.pk)))
	}
	for k, key := range it.keys {
		extra.WriteString(fmt.Sprintf(", KEY k%d (%s)", k, colList(key)))
		out.Stat(fmt.Sprintf("idx:secondary-key-%d-col", len(key)))
	}
	t.Extra = extra.String()
	return t, it
}

func colList(cs []int) string {
	parts := make([]string, len(cs))
	for i, c := range cs {
		parts[i] = fmt.Sprintf("c%d", c)
	}
	return strings.Join(parts, ", ")
}

type idxGen struct {
	r   *hx.Rand
	out *hx.Out
}

func (g *idxGen) lit() *sqlgen.Expr {
	if g.r.Chance(1, 14) {
		return null()
	}
	return lit(g.r.Range(idxLo-1, idxHi+1))
}

// atom draws a leaf predicate on column c (shifted by off in a joined row); nc = columns of the table.
func (g *idxGen) atom(c, off, nc int) *sqlgen.Expr {
	x := col(off + c)
	switch g.r.Intn(12) {
	case 0, 1, 2, 3, 4, 5:
		op := hx.Pick(g.r, []string{"eq", "eq", "ne", "lt", "le", "gt", "ge", "gt", "le", "nseq"})
		g.out.Stat("idx:atom-cmp-" + op)
		if g.r.Chance(1, 5) {
			return sqlgen.Cmp(op, g.lit(), x)
		}
		return sqlgen.Cmp(op, x, g.lit())
	case 6, 7:
		e := sqlgen.Between(x, g.lit(), g.lit())
		g.out.Stat("idx:atom-between")
		if g.r.Chance(1, 4) {
			n := sqlgen.Not(e)
			n.Alt = g.r.Bool()
			return n
		}
		return e
	case 8:
		n := g.r.Range(1, 3)
		list := make([]*sqlgen.Expr, n)
		for i := range list {
			list[i] = lit(g.r.Range(idxLo-1, idxHi+1))
			if g.r.Chance(1, 10) {
				list[i] = null()
			}
		}
		e := sqlgen.In(x, list)
		g.out.Stat("idx:atom-in")
		if g.r.Chance(1, 4) {
			nn := sqlgen.Not(e)
			nn.Alt = g.r.Bool()
			return nn
		}
		return e
	case 9:
		e := sqlgen.Un("isnull", x)
		g.out.Stat("idx:atom-isnull")
		if g.r.Bool() {
			n := sqlgen.Not(e)
			n.Alt = g.r.Bool()
			return n
		}
		return e
	case 10: // not sargable: column against column
		g.out.Stat("idx:atom-col-col")
		return sqlgen.Cmp(hx.Pick(g.r, []string{"eq", "lt", "ge", "ne"}), x, col(off+g.r.Intn(nc)))
	}
	// not sargable: arithmetic on the column
	g.out.Stat("idx:atom-arith")
	return sqlgen.Cmp(hx.Pick(g.r, []string{"eq", "lt", "ge"}), sqlgen.Arith("add", x, lit(g.r.Range(0, 1))), g.lit())
}

// pickKey: the column list of one of the table's indexes (or an arbitrary column order).
func (g *idxGen) pickKey(it *idxTable, nc int) []int {
	var ks [][]int
	ks = append(ks, it.keys...)
	ks = append(ks, it.keys...) // secondary indexes twice as likely as the primary key
	if it.pk != nil {
		ks = append(ks, it.pk)
	}
	if len(ks) == 0 || g.r.Chance(1, 10) {
		return []int{g.r.Intn(nc)}
	}
	return hx.Pick(g.r, ks)
}

// prefixConj: a conjunction with one leaf per column of an index prefix, in index order or shuffled —
// the shape the range builder turns into ONE multi-column range (a box).
func (g *idxGen) prefixConj(it *idxTable, off, nc int) *sqlgen.Expr {
	key := g.pickKey(it, nc)
	n := len(key)
	if n > 1 && g.r.Chance(1, 4) {
		n = g.r.Range(1, n)
	}
	leaves := make([]*sqlgen.Expr, n)
	for i := 0; i < n; i++ {
		leaves[i] = g.atom(key[i], off, nc)
	}
	if g.r.Chance(1, 3) {
		for i := n - 1; i > 0; i-- {
			j := g.r.Intn(i + 1)
			leaves[i], leaves[j] = leaves[j], leaves[i]
		}
	}
	e := leaves[0]
	for _, l := range leaves[1:] {
		e = and(e, l)
	}
	g.out.Stat(fmt.Sprintf("idx:prefix-conjunction-%d", n))
	return e
}

func (g *idxGen) pred(depth int, it *idxTable, off, nc int) *sqlgen.Expr {
	if depth <= 0 {
		return g.atom(hx.Pick(g.r, g.pickKey(it, nc)), off, nc)
	}
	switch g.r.Intn(10) {
	case 0, 1, 2, 3, 4:
		return g.prefixConj(it, off, nc)
	case 5, 6:
		g.out.Stat("idx:or")
		return or(g.pred(depth-1, it, off, nc), g.pred(depth-1, it, off, nc))
	case 7:
		g.out.Stat("idx:not")
		return sqlgen.Not(g.pred(depth-1, it, off, nc))
	case 8:
		g.out.Stat("idx:and")
		return and(g.pred(depth-1, it, off, nc), g.pred(depth-1, it, off, nc))
	}
	return g.atom(hx.Pick(g.r, g.pickKey(it, nc)), off, nc)
}

// idxCorpus: regression cases that run first: a two-column index, rows whose index order interleaves
// matches and non-matches of a box predicate, and the predicates of the classes
// "open range on the leading column + restriction on a later column".
func idxCorpus(rn *sqlgen.Runner, tlp tlpFn) {
	v := func(xs ...int) []sqlgen.Value {
		row := make([]sqlgen.Value, len(xs))
		for i, x := range xs {
			row[i] = sqlgen.Int(int64(x))
			if x == -9 {
				row[i] = sqlgen.Null()
			}
		}
		return row
	}
	t := &sqlgen.Table{Tys: intTys(3), NotNull: []bool{false, false, false},
		Rows:  [][]sqlgen.Value{v(1, 1, 0), v(2, 1, 1), v(2, 2, 2), v(3, 1, 3), v(3, 2, 0), v(-9, 2, 1), v(4, 2, 2), v(4, -9, 3), v(5, 3, 0), v(2, 2, 2)},
		Extra: ", KEY k0 (c0, c1), KEY k1 (c2)"}
	db := &sqlgen.Db{Tables: []*sqlgen.Table{t}}
	rn.Open(db)
	for _, p := range []*sqlgen.Expr{
		and(sqlgen.Cmp("gt", col(0), lit(1)), sqlgen.Cmp("eq", col(1), lit(2))),
		and(sqlgen.Cmp("ge", col(0), lit(2)), sqlgen.Cmp("ge", col(1), lit(2))),
		and(sqlgen.Between(col(0), lit(2), lit(4)), sqlgen.Cmp("eq", col(1), lit(2))),
		and(sqlgen.Cmp("lt", col(0), lit(5)), sqlgen.Cmp("eq", col(1), lit(1))),
		and(sqlgen.Cmp("eq", col(0), lit(2)), sqlgen.Cmp("gt", col(1), lit(0))),
		and(sqlgen.Un("isnull", col(0)), sqlgen.Cmp("eq", col(1), lit(2))),
		or(sqlgen.Cmp("lt", col(0), lit(2)), and(sqlgen.Cmp("gt", col(0), lit(3)), sqlgen.Cmp("le", col(1), lit(2)))),
		sqlgen.Between(col(2), lit(1), lit(2)),
		sqlgen.Not(sqlgen.In(col(2), []*sqlgen.Expr{lit(0), null()})),
	} {
		tlp(db, whereParts(sqlgen.TableQ(0), p, 3, nil), intTys(3), "WHERE/index")
		desc := func(q *sqlgen.Query) *sqlgen.Query {
			return sqlgen.OrderBy([]*sqlgen.Expr{col(0), col(1)}, []bool{true, true}, q)
		}
		tlp(db, whereParts(sqlgen.TableQ(0), p, 3, desc), intTys(3), "WHERE/index-reverse")
	}
}

func idxStream(r *hx.Rand, out *hx.Out, rn *sqlgen.Runner, tlp tlpFn, nDb, perDb int) {
	g := &idxGen{r: r, out: out}
	idxCorpus(rn, tlp)
	for i := 0; i < nDb; i++ {
		db := &sqlgen.Db{}
		var its []*idxTable
		nt := r.Range(1, 2)
		for n := 0; n < nt; n++ {
			t, it := genIdxTable(r, out)
			db.Tables = append(db.Tables, t)
			its = append(its, it)
		}
		rn.Open(db)
		for k := 0; k < perDb; k++ {
			n := r.Intn(nt)
			t, it := db.Tables[n], its[n]
			nc := len(t.Tys)
			if nt == 2 && r.Chance(1, 4) { // inner-join ON: the indexed table against the other one
				m := 1 - n
				u := db.Tables[m]
				all := intTys(nc + len(u.Tys))
				var p *sqlgen.Expr
				for try := 0; ; try++ {
					p = g.pred(r.Range(0, 2), it, 0, nc)
					if r.Chance(2, 3) { // an equality between the two tables: lookup / merge join on the index
						key := g.pickKey(it, nc)
						eq := sqlgen.Cmp("eq", col(key[0]), col(nc+r.Intn(len(u.Tys))))
						if r.Bool() {
							p = and(eq, p)
						} else {
							p = and(p, eq)
						}
						out.Stat("idx:on-with-equality")
					}
					if topConjunctsHaveCols(p) || try > 6 {
						break
					}
				}
				if !topConjunctsHaveCols(p) {
					continue
				}
				tlp(db, onParts(sqlgen.TableQ(n), sqlgen.TableQ(m), p, len(all)), all, "ON/index")
				continue
			}
			var p *sqlgen.Expr
			if r.Chance(2, 5) { // one leaf per column of an index prefix: a single multi-column range
				p = g.prefixConj(it, 0, nc)
			} else {
				p = g.pred(r.Range(0, 3), it, 0, nc)
			}
			var wrap func(*sqlgen.Query) *sqlgen.Query
			where := "WHERE/index"
			if r.Chance(1, 4) { // read the parts in (reverse) index order
				key := g.pickKey(it, nc)
				desc := r.Chance(2, 3)
				wrap = func(q *sqlgen.Query) *sqlgen.Query {
					ks := make([]*sqlgen.Expr, len(key))
					ds := make([]bool, len(key))
					for i, c := range key {
						ks[i], ds[i] = col(c), desc
					}
					return sqlgen.OrderBy(ks, ds, q)
				}
				where = "WHERE/index-ordered"
				if desc {
					where = "WHERE/index-reverse"
				}
			}
			tlp(db, whereParts(sqlgen.TableQ(n), p, nc, wrap), intTys(nc), where)
		}
	}
}

// ---------------------------------------------------------------------------------------------
// fold stream

type foldGen struct {
	r   *hx.Rand
	out *hx.Out
	// nullable[j]: column j is nullable (and holds at least one NULL)
	notNull []bool
	off     int
}

// konst: an integer constant: a literal, a constant-foldable sum, rarely NULL.
func (g *foldGen) konst() *sqlgen.Expr {
	switch g.r.Intn(12) {
	case 0:
		a := g.r.Range(-1, 2)
		b := g.r.Range(0, 3)
		g.out.Stat("fold:const-arith")
		return sqlgen.Arith("add", lit(a), lit(b))
	case 1:
		return null()
	}
	return lit(g.r.Range(-2, 5))
}

func (g *foldGen) anyCol() int { return g.r.Intn(len(g.notNull)) }

// operand: mostly a nullable column, sometimes any column, a NULL literal or col + NULL-able arithmetic.
func (g *foldGen) operand() *sqlgen.Expr {
	var nullable []int
	for j, nn := range g.notNull {
		if !nn {
			nullable = append(nullable, j)
		}
	}
	switch k := g.r.Intn(10); {
	case k < 6 && len(nullable) > 0:
		return col(g.off + hx.Pick(g.r, nullable))
	case k < 8:
		return col(g.off + g.anyCol())
	case k == 8:
		return null()
	}
	return sqlgen.Arith("add", col(g.off+g.anyCol()), g.konst())
}

// foldable: a sub-predicate the simplification rule rewrites or constant-folds.
func (g *foldGen) foldable() *sqlgen.Expr {
	alt := func(e *sqlgen.Expr, num, den int) *sqlgen.Expr {
		if g.r.Chance(num, den) {
			n := sqlgen.Not(e)
			n.Alt = g.r.Bool()
			return n
		}
		return e
	}
	switch g.r.Intn(14) {
	case 0, 1, 2, 3: // BETWEEN with literal bounds in every order
		lo, hi := g.r.Range(-1, 4), g.r.Range(-1, 4)
		var l, h *sqlgen.Expr = lit(lo), lit(hi)
		switch {
		case lo > hi:
			g.out.Stat("fold:between-empty-range")
		case lo == hi:
			g.out.Stat("fold:between-point-range")
		default:
			g.out.Stat("fold:between-proper-range")
		}
		if g.r.Chance(1, 6) { // a bound that only becomes a literal by constant folding
			d := g.r.Range(1, 2)
			l = sqlgen.Arith("add", lit(lo-d), lit(d))
			g.out.Stat("fold:between-folded-bound")
		}
		if g.r.Chance(1, 12) {
			h = null()
		}
		return alt(sqlgen.Between(g.operand(), l, h), 1, 3)
	case 4: // BETWEEN naming the same column twice (rewritten to = / <= / >=)
		c := col(g.off + g.anyCol())
		g.out.Stat("fold:between-same-field")
		switch g.r.Intn(3) {
		case 0:
			return alt(sqlgen.Between(g.operand(), c, c.Clone()), 1, 3)
		case 1:
			return alt(sqlgen.Between(c, c.Clone(), g.konst()), 1, 3)
		}
		return alt(sqlgen.Between(c, g.konst(), c.Clone()), 1, 3)
	case 5: // a column compared with itself
		c := col(g.off + g.anyCol())
		g.out.Stat("fold:cmp-same-field")
		return sqlgen.Cmp(hx.Pick(g.r, []string{"eq", "ne", "lt", "le", "ge", "nseq"}), c, c.Clone())
	case 6: // constant comparison
		g.out.Stat("fold:cmp-const")
		return sqlgen.Cmp(hx.Pick(g.r, []string{"eq", "ne", "lt", "le", "gt", "ge", "nseq"}), g.konst(), g.konst())
	case 7: // constant BETWEEN / IN
		g.out.Stat("fold:const-between-in")
		if g.r.Bool() {
			return alt(sqlgen.Between(g.konst(), g.konst(), g.konst()), 1, 3)
		}
		return alt(sqlgen.In(g.konst(), []*sqlgen.Expr{g.konst(), g.konst()}), 1, 3)
	case 8, 9: // literal truth value
		g.out.Stat("fold:literal-truth-value")
		return hx.Pick(g.r, []*sqlgen.Expr{lit(0), lit(1), null(), lit(2), lit(0), lit(1), null()})
	case 10: // IS NULL of a constant / of a NOT NULL column
		g.out.Stat("fold:isnull-const")
		if g.r.Bool() {
			return alt(sqlgen.Un("isnull", g.konst()), 1, 2)
		}
		return alt(sqlgen.Un("isnull", col(g.off+g.anyCol())), 1, 2)
	case 11: // one-element IN list
		g.out.Stat("fold:in-singleton")
		return alt(sqlgen.In(g.operand(), []*sqlgen.Expr{g.konst()}), 1, 3)
	case 12: // NOT of a literal
		g.out.Stat("fold:not-literal")
		return sqlgen.Not(hx.Pick(g.r, []*sqlgen.Expr{lit(0), lit(1), null(), lit(3)}))
	}
	g.out.Stat("fold:plain-cmp")
	return g.plain()
}

// plain: an ordinary row-dependent comparison.
func (g *foldGen) plain() *sqlgen.Expr {
	return sqlgen.Cmp(hx.Pick(g.r, []string{"eq", "ne", "lt", "le", "gt", "ge"}), col(g.off+g.anyCol()), lit(g.r.Range(-1, 3)))
}

func (g *foldGen) pred(depth int) *sqlgen.Expr {
	if depth <= 0 {
		return g.foldable()
	}
	sub := func() *sqlgen.Expr {
		if g.r.Chance(1, 4) {
			return g.plain()
		}
		return g.pred(depth - 1)
	}
	switch g.r.Intn(11) {
	case 0, 1:
		g.out.Stat("fold:and")
		return and(sub(), sub())
	case 2, 3:
		g.out.Stat("fold:or")
		return or(sub(), sub())
	case 4, 5:
		g.out.Stat("fold:not")
		return sqlgen.Not(g.pred(depth - 1))
	case 6:
		e := sqlgen.Un(hx.Pick(g.r, []string{"istrue", "isfalse"}), g.pred(depth-1))
		g.out.Stat("fold:istruth")
		if g.r.Chance(1, 2) {
			n := sqlgen.Not(e)
			n.Alt = g.r.Bool()
			return n
		}
		return e
	case 7:
		g.out.Stat("fold:isnull")
		return sqlgen.Un("isnull", g.pred(depth-1))
	}
	return g.foldable()
}

func genFoldTable(r *hx.Rand, out *hx.Out) *sqlgen.Table {
	nc := r.Range(1, 3)
	t := &sqlgen.Table{Tys: intTys(nc), NotNull: make([]bool, nc)}
	for j := 1; j < nc; j++ {
		t.NotNull[j] = r.Chance(1, 4)
	}
	nr := r.Range(2, 6)
	for i := 0; i < nr; i++ {
		row := make([]sqlgen.Value, nc)
		for j := range row {
			if !t.NotNull[j] && (r.Chance(1, 4) || i == 0) { // the first row is NULL in every nullable column
				row[j] = sqlgen.Null()
			} else {
				row[j] = sqlgen.Int(int64(r.Range(-1, 4)))
			}
		}
		t.Rows = append(t.Rows, row)
	}
	for i := len(t.Rows) - 1; i > 0; i-- {
		j := r.Intn(i + 1)
		t.Rows[i], t.Rows[j] = t.Rows[j], t.Rows[i]
	}
	if r.Chance(1, 3) {
		j := r.Intn(nc)
		t.Extra = fmt.Sprintf(", KEY k0 (c%d)", j)
		out.Stat("fold:table-with-index")
	}
	return t
}

// foldCorpus: the NULL corner of an empty literal range in every context that tells NULL from FALSE.
func foldCorpus(rn *sqlgen.Runner, tlp tlpFn) {
	n := sqlgen.Null()
	i := func(x int) sqlgen.Value { return sqlgen.Int(int64(x)) }
	t0 := &sqlgen.Table{Tys: intTys(2), NotNull: []bool{true, false},
		Rows: [][]sqlgen.Value{{i(1), n}, {i(2), i(4)}, {i(3), i(1)}, {i(4), i(6)}}}
	t1 := &sqlgen.Table{Tys: intTys(1), NotNull: []bool{false}, Rows: [][]sqlgen.Value{{i(1)}, {i(3)}, {n}}}
	db := &sqlgen.Db{Tables: []*sqlgen.Table{t0, t1}}
	rn.Open(db)
	empty := func() *sqlgen.Expr { return sqlgen.Between(col(1), lit(5), lit(3)) }
	nb := sqlgen.Not(empty())
	nb.Alt = true
	nt := sqlgen.Not(sqlgen.Un("istrue", empty()))
	nt.Alt = true
	for _, p := range []*sqlgen.Expr{
		empty(), sqlgen.Not(empty()), nb, nt, sqlgen.Un("isnull", empty()),
		sqlgen.Between(col(1), sqlgen.Arith("add", lit(2), lit(3)), lit(3)),
		or(empty(), sqlgen.Cmp("eq", col(0), lit(4))),
		and(sqlgen.Not(empty()), sqlgen.Cmp("le", col(0), lit(3))),
		sqlgen.Between(null(), lit(3), lit(2)),
		sqlgen.Between(col(1), lit(4), lit(4)),
		sqlgen.Between(col(1), col(1), lit(4)),
		sqlgen.Between(col(0), col(1), col(1)),
		sqlgen.Cmp("eq", col(1), col(1)),
		or(sqlgen.Cmp("gt", col(1), lit(2)), null()),
		and(sqlgen.Cmp("gt", col(1), lit(2)), lit(1)),
	} {
		tlp(db, whereParts(sqlgen.TableQ(0), p, 2, nil), intTys(2), "WHERE/fold")
	}
	for _, p := range []*sqlgen.Expr{
		and(sqlgen.Cmp("le", col(2), col(0)), sqlgen.Not(empty())),
		and(sqlgen.Cmp("le", col(2), col(0)), sqlgen.Un("isnull", sqlgen.Between(col(2), lit(2), lit(1)))),
		or(sqlgen.Cmp("eq", col(2), col(0)), sqlgen.Not(sqlgen.Between(col(2), lit(2), lit(1)))),
	} {
		tlp(db, onParts(sqlgen.TableQ(0), sqlgen.TableQ(1), p, 3), intTys(3), "ON/fold")
	}
}

// regionCorpus: the witness of the known finding join_on_folds_false_beside_subquery (region.go): the ON
// of a join folds to FALSE (simplifyFilters puts an EmptyTable into the join tree) beside a WHERE
// subquery that is unnested into an anti join — `WHERE NOT p` fails with error 1105 where `WHERE p` and
// `WHERE p IS NULL` answer.
func regionCorpus(rn *sqlgen.Runner, tlp tlpFn) {
	i := func(x int) sqlgen.Value { return sqlgen.Int(int64(x)) }
	t0 := &sqlgen.Table{Tys: intTys(1), NotNull: []bool{false}, Rows: [][]sqlgen.Value{{i(1)}, {i(2)}}}
	db := &sqlgen.Db{Tables: []*sqlgen.Table{t0}}
	rn.Open(db)
	q := sqlgen.Join("left", and(sqlgen.Cmp("gt", col(0), col(1)), sqlgen.Cmp("eq", lit(1), lit(0))), sqlgen.TableQ(0), sqlgen.TableQ(0))
	p := sqlgen.Exists(sqlgen.Filter(sqlgen.Cmp("eq", col(0), lit(1)), sqlgen.TableQ(0)))
	tlp(db, whereParts(q, p, 2, nil), intTys(2), "WHERE/fold")
}

func foldStream(r *hx.Rand, out *hx.Out, rn *sqlgen.Runner, tlp tlpFn, nDb, perDb int) {
	foldCorpus(rn, tlp)
	regionCorpus(rn, tlp)
	for i := 0; i < nDb; i++ {
		db := &sqlgen.Db{}
		nt := r.Range(1, 2)
		for n := 0; n < nt; n++ {
			db.Tables = append(db.Tables, genFoldTable(r, out))
		}
		rn.Open(db)
		for k := 0; k < perDb; k++ {
			n := r.Intn(nt)
			t := db.Tables[n]
			if nt == 2 && r.Chance(1, 3) { // inner-join ON over both tables
				u := db.Tables[1-n]
				g := &foldGen{r: r, out: out, notNull: append(append([]bool(nil), t.NotNull...), u.NotNull...)}
				var p *sqlgen.Expr
				for try := 0; try < 8; try++ {
					p = g.pred(r.Range(1, 3))
					if r.Chance(1, 2) {
						p = and(sqlgen.Cmp(hx.Pick(r, []string{"eq", "le", "ne"}), col(r.Intn(len(t.Tys))), col(len(t.Tys)+r.Intn(len(u.Tys)))), p)
					}
					if topConjunctsHaveCols(p) {
						break
					}
				}
				if !topConjunctsHaveCols(p) {
					continue
				}
				w := len(t.Tys) + len(u.Tys)
				tlp(db, onParts(sqlgen.TableQ(n), sqlgen.TableQ(1-n), p, w), intTys(w), "ON/fold")
				continue
			}
			g := &foldGen{r: r, out: out, notNull: t.NotNull}
			p := g.pred(r.Range(0, 3))
			tlp(db, whereParts(sqlgen.TableQ(n), p, len(t.Tys), nil), intTys(len(t.Tys)), "WHERE/fold")
		}
	}
}
