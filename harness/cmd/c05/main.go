// C05 — A predicate partitions rows into TRUE, FALSE and NULL parts.
//
//	c05 extract   the rewrite table of pushNotFiltersHelper (sql/analyzer/optimization_rules.go), read
//	              with go/ast: which child kinds of a NOT are rewritten, to which constructors
//	c05 run       (a) unit correspondence: the REAL pushNotFiltersHelper (overlay accessor
//	              analyzer.VerifPushNot) on generated expression trees vs. the Lean Impl model `push`;
//	              (b) engine-level TLP: Q, σ_p Q, σ_{NOT p} Q, σ_{p IS NULL} Q and SELECT p,* FROM Q
//	              (p in WHERE, HAVING or an inner-join ON) on the real engine vs. the Lean reference
//	              semantics, plus the model-free partition oracle on the engine's own results
package main

import (
	"fmt"
	"go/ast"
	"sort"
	"strings"

	"github.com/dolthub/go-mysql-server/sql"
	"github.com/dolthub/go-mysql-server/sql/analyzer"
	"github.com/dolthub/go-mysql-server/sql/expression"
	"github.com/dolthub/go-mysql-server/sql/types"
	"github.com/dolthub/go-mysql-server/verifharness/hx"
	"github.com/dolthub/go-mysql-server/verifharness/sqlgen"
)

func main() { hx.Main(extract, run) }

// ---------------------------------------------------------------------------------------------
// Facts

func callNames(n ast.Node) []string {
	var out []string
	ast.Inspect(n, func(x ast.Node) bool {
		c, ok := x.(*ast.CallExpr)
		if !ok {
			return true
		}
		switch f := c.Fun.(type) {
		case *ast.SelectorExpr:
			out = append(out, f.Sel.Name)
		case *ast.Ident:
			out = append(out, f.Name)
		}
		return true
	})
	return out
}

func extract(a hx.ExtractArgs) error {
	src, err := hx.ParseSrc(a.Repo, "sql/analyzer/optimization_rules.go")
	if err != nil {
		return err
	}
	fd, err := src.Func("", "pushNotFiltersHelper")
	if err != nil {
		return err
	}
	lf := hx.NewLeanFile("Gms.Generated.C05", src.Path, "memory/table.go")
	type entry struct {
		kind  string
		calls []string
	}
	var table []entry
	var betweenArgs []string
	fall := ""
	for _, st := range fd.Body.List {
		switch s := st.(type) {
		case *ast.IfStmt:
			// if not, _ := e.(*expression.Not); not != nil { if f, _ := not.Child.(*expression.X); f != nil { … return pushNotFiltersHelper(ctx, <expr>) } }
			if len(s.Body.List) != 1 {
				return fmt.Errorf("unexpected shape of a rewrite case at line %d", src.Line(s))
			}
			inner, ok := s.Body.List[0].(*ast.IfStmt)
			if !ok {
				return fmt.Errorf("unexpected shape of a rewrite case at line %d", src.Line(s))
			}
			as, ok := inner.Init.(*ast.AssignStmt)
			if !ok || len(as.Rhs) != 1 {
				return fmt.Errorf("unexpected inner init at line %d", src.Line(inner))
			}
			ta, ok := as.Rhs[0].(*ast.TypeAssertExpr)
			if !ok {
				return fmt.Errorf("inner init is not a type assertion at line %d", src.Line(inner))
			}
			star, ok := ta.Type.(*ast.StarExpr)
			if !ok {
				return fmt.Errorf("type assertion not on a pointer type at line %d", src.Line(inner))
			}
			sel, ok := star.X.(*ast.SelectorExpr)
			if !ok {
				return fmt.Errorf("type assertion not on expression.X at line %d", src.Line(inner))
			}
			if src.Text(ta.X) != "not.Child" {
				return fmt.Errorf("type assertion on %s, expected not.Child", src.Text(ta.X))
			}
			var calls []string
			var ret *ast.ReturnStmt
			ast.Inspect(inner.Body, func(x ast.Node) bool {
				switch y := x.(type) {
				case *ast.IfStmt:
					if y != inner {
						calls = append(calls, callNames(y.Cond)...)
					}
				case *ast.ReturnStmt:
					ret = y
				}
				return true
			})
			if ret == nil || len(ret.Results) != 2 && len(ret.Results) != 1 {
				return fmt.Errorf("no return in rewrite case %s", sel.Sel.Name)
			}
			call, ok := ret.Results[0].(*ast.CallExpr)
			if !ok || src.Text(call.Fun) != "pushNotFiltersHelper" || len(call.Args) != 2 {
				return fmt.Errorf("rewrite case %s does not return pushNotFiltersHelper(ctx, …)", sel.Sel.Name)
			}
			inn := callNames(call.Args[1])
			if len(inn) == 0 { // NOT(NOT(c)) => recurse on f.Child
				calls = append(calls, "pushNotFiltersHelper")
			} else {
				calls = append(calls, inn...)
			}
			if sel.Sel.Name == "Between" {
				ast.Inspect(call.Args[1], func(x ast.Node) bool {
					if se, ok := x.(*ast.SelectorExpr); ok {
						if id, ok := se.X.(*ast.Ident); ok && id.Name == "f" {
							betweenArgs = append(betweenArgs, "f."+se.Sel.Name)
						}
					}
					return true
				})
			}
			table = append(table, entry{sel.Sel.Name, calls})
		case *ast.ReturnStmt:
			if c, ok := s.Results[0].(*ast.CallExpr); ok {
				if se, ok := c.Fun.(*ast.SelectorExpr); ok {
					fall = se.Sel.Name
				}
			}
		}
	}
	if len(table) == 0 || fall == "" {
		return fmt.Errorf("pushNotFiltersHelper: no rewrite cases / no fall-through found")
	}
	var rows []string
	for _, e := range table {
		qs := make([]string, len(e.calls))
		for i, c := range e.calls {
			qs[i] = hx.LeanString(c)
		}
		rows = append(rows, fmt.Sprintf("(%s, [%s])", hx.LeanString(e.kind), strings.Join(qs, ", ")))
	}
	lf.Comment("pushNotFiltersHelper: (kind of the NOT's child, calls made to build the replacement), in source order")
	lf.Raw("def pushNotTable : List (String × List String) := [\n  " + strings.Join(rows, ",\n  ") + "]\n")
	lf.DefStringList("betweenArgs", betweenArgs)
	lf.DefString("fallThrough", fall)
	if err := extractSimplify(src, lf); err != nil {
		return err
	}
	msrc, err := hx.ParseSrc(a.Repo, "memory/table.go")
	if err != nil {
		return err
	}
	if err := extractIdxIter(msrc, lf); err != nil {
		return err
	}
	return lf.Write(a.Out)
}

// ---------------------------------------------------------------------------------------------
// (a) unit correspondence with the real pushNotFiltersHelper

type PE struct {
	Op   string // atom not and or cmp between other
	N    int    // atom number / other tag
	Bool bool
	Sub  string
	Args []*PE
}

func (e *PE) Sexp() string {
	b := "0"
	if e.Bool {
		b = "1"
	}
	switch e.Op {
	case "atom":
		return fmt.Sprintf("(atom %d %s)", e.N, b)
	case "cmp":
		return fmt.Sprintf("(cmp %s %s %s)", e.Sub, e.Args[0].Sexp(), e.Args[1].Sexp())
	case "other":
		parts := make([]string, len(e.Args))
		for i, a := range e.Args {
			parts[i] = a.Sexp()
		}
		return fmt.Sprintf("(other %d %s (%s))", e.N, b, strings.Join(parts, " "))
	}
	parts := []string{e.Op}
	for _, a := range e.Args {
		parts = append(parts, a.Sexp())
	}
	return "(" + strings.Join(parts, " ") + ")"
}

// other tags: 0 = `+` (not boolean), 1 = IS NULL (boolean), 2 = IN tuple (boolean)
func toExpr(e *PE) sql.Expression {
	a := func(i int) sql.Expression { return toExpr(e.Args[i]) }
	switch e.Op {
	case "atom":
		if e.Bool {
			return expression.NewGetField(e.N, types.Boolean, fmt.Sprintf("b%d", e.N), true)
		}
		return expression.NewGetField(e.N, types.Int64, fmt.Sprintf("i%d", e.N), true)
	case "not":
		return expression.NewNot(a(0))
	case "and":
		return expression.NewAnd(a(0), a(1))
	case "or":
		return expression.NewOr(a(0), a(1))
	case "between":
		return expression.NewBetween(a(0), a(1), a(2))
	case "cmp":
		switch e.Sub {
		case "eq":
			return expression.NewEquals(a(0), a(1))
		case "nseq":
			return expression.NewNullSafeEquals(a(0), a(1))
		case "lt":
			return expression.NewLessThan(a(0), a(1))
		case "le":
			return expression.NewLessThanOrEqual(a(0), a(1))
		case "gt":
			return expression.NewGreaterThan(a(0), a(1))
		case "ge":
			return expression.NewGreaterThanOrEqual(a(0), a(1))
		}
	case "other":
		switch e.N {
		case 0:
			return expression.NewPlus(a(0), a(1))
		case 1:
			return expression.NewIsNull(a(0))
		case 2:
			var items []sql.Expression
			for i := 1; i < len(e.Args); i++ {
				items = append(items, a(i))
			}
			return expression.NewInTuple(a(0), expression.NewTuple(items...))
		}
	}
	panic("c05: cannot build " + e.Sexp())
}

func fromExpr(x sql.Expression) *PE {
	f := func(es ...sql.Expression) []*PE {
		out := make([]*PE, len(es))
		for i, e := range es {
			out[i] = fromExpr(e)
		}
		return out
	}
	switch e := x.(type) {
	case *expression.GetField:
		return &PE{Op: "atom", N: e.Index(), Bool: strings.HasPrefix(e.Name(), "b")}
	case *expression.Not:
		return &PE{Op: "not", Args: f(e.Child)}
	case *expression.And:
		return &PE{Op: "and", Args: f(e.LeftChild, e.RightChild)}
	case *expression.Or:
		return &PE{Op: "or", Args: f(e.LeftChild, e.RightChild)}
	case *expression.Between:
		return &PE{Op: "between", Args: f(e.Val, e.Lower, e.Upper)}
	case *expression.Equals:
		return &PE{Op: "cmp", Sub: "eq", Args: f(e.Left(), e.Right())}
	case *expression.NullSafeEquals:
		return &PE{Op: "cmp", Sub: "nseq", Args: f(e.Left(), e.Right())}
	case *expression.LessThan:
		return &PE{Op: "cmp", Sub: "lt", Args: f(e.Left(), e.Right())}
	case *expression.LessThanOrEqual:
		return &PE{Op: "cmp", Sub: "le", Args: f(e.Left(), e.Right())}
	case *expression.GreaterThan:
		return &PE{Op: "cmp", Sub: "gt", Args: f(e.Left(), e.Right())}
	case *expression.GreaterThanOrEqual:
		return &PE{Op: "cmp", Sub: "ge", Args: f(e.Left(), e.Right())}
	case *expression.Arithmetic:
		return &PE{Op: "other", N: 0, Args: f(e.LeftChild, e.RightChild)}
	case *expression.IsNull:
		return &PE{Op: "other", N: 1, Bool: true, Args: f(e.Child)}
	case *expression.InTuple:
		tup, _ := e.Right().(expression.Tuple)
		return &PE{Op: "other", N: 2, Bool: true, Args: f(append([]sql.Expression{e.Left()}, tup...)...)}
	}
	return &PE{Op: "atom", N: 9999} // unknown node: differs from every model output
}

func genPE(r *hx.Rand, depth int) *PE {
	if depth <= 0 || r.Chance(1, 8) {
		return &PE{Op: "atom", N: r.Intn(4), Bool: r.Chance(1, 3)}
	}
	g := func() *PE { return genPE(r, depth-1) }
	switch r.Intn(12) {
	case 0, 1, 2, 3:
		return &PE{Op: "not", Args: []*PE{g()}}
	case 4:
		return &PE{Op: "and", Args: []*PE{g(), g()}}
	case 5:
		return &PE{Op: "or", Args: []*PE{g(), g()}}
	case 6, 7:
		return &PE{Op: "cmp", Sub: hx.Pick(r, []string{"eq", "nseq", "lt", "le", "gt", "ge"}), Args: []*PE{g(), g()}}
	case 8:
		return &PE{Op: "between", Args: []*PE{g(), g(), g()}}
	case 9:
		return &PE{Op: "other", N: 0, Args: []*PE{g(), g()}}
	case 10:
		return &PE{Op: "other", N: 1, Bool: true, Args: []*PE{g()}}
	}
	n := r.Range(1, 3)
	args := []*PE{g()}
	for i := 0; i < n; i++ {
		args = append(args, g())
	}
	return &PE{Op: "other", N: 2, Bool: true, Args: args}
}

func countNots(e *PE) int {
	n := 0
	if e.Op == "not" {
		n = 1
	}
	for _, a := range e.Args {
		n += countNots(a)
	}
	return n
}

func unitCase(out *hx.Out, ctx *sql.Context, e *PE) {
	var res sql.Expression
	var err error
	p := hx.Safe(func() { res, err = analyzer.VerifPushNot(ctx, toExpr(e)) })
	obs := ""
	switch {
	case p != "":
		obs = "crash:" + p
	case err != nil:
		obs = "err"
	default:
		obs = fromExpr(res).Sexp()
	}
	out.Case("(c05 pushnot "+e.Sexp()+")", obs, countNots(e) > 0 && obs != e.Sexp())
	out.Stat("unit:pushnot")
	if obs != e.Sexp() {
		out.Stat("unit:pushnot-rewritten")
	}
}

// ---------------------------------------------------------------------------------------------
// (b) engine-level partition

func multiset(obs string) (map[string]int, bool) {
	if !strings.HasPrefix(obs, "rows") {
		return nil, false
	}
	m := map[string]int{}
	body := strings.TrimPrefix(strings.TrimPrefix(obs, "rows"), " ")
	if body == "" {
		return m, true
	}
	for _, r := range strings.Split(body[1:len(body)-1], ") (") {
		m[r]++
	}
	return m, true
}

func run(a hx.RunArgs) error {
	out := hx.NewOut(a.OutDir)
	defer out.Close()
	out.Rule = "unit: random expression trees (depth <=5, NOT-heavy, boolean and non-boolean leaves, opaque +, IS NULL, IN nodes) through the real pushNotFiltersHelper, non-trivial when the tree was rewritten; " +
		"engine: a generated database, a query Q (depth <=2; a grouped query for HAVING, a cross join for ON) and a predicate p (depth <=3, with subqueries); the five statements Q, WHERE p, WHERE NOT p, WHERE p IS NULL, SELECT p,* are run; " +
		"index stream: tables with a PRIMARY KEY and/or 1..3-column secondary indexes over a dense value domain {0..3, NULL}, sargable predicates (one leaf per column of an index prefix, OR / NOT / AND of those, non-sargable leaves mixed in) in WHERE (optionally read in forward / reverse index order) and in an inner-join ON with an equality on the index; " +
		"fold stream: predicates with sub-terms the filter simplification rule rewrites (BETWEEN with literal bounds in every order incl. empty ranges, BETWEEN / comparison naming one column twice, constant comparisons, literal operands of AND / OR / NOT) over nullable operands with a NULL row, under NOT / IS NULL / IS [NOT] TRUE / OR / ON; " +
		"non-trivial when Q is non-empty and at least two of the three parts are non-empty"
	r := hx.NewRand(a.Seed).Fork()
	ctx := sql.NewEmptyContext()

	// unit corpus, then random
	at := func(n int, b bool) *PE { return &PE{Op: "atom", N: n, Bool: b} }
	not := func(e *PE) *PE { return &PE{Op: "not", Args: []*PE{e}} }
	for _, e := range []*PE{
		not(not(at(0, true))), not(not(at(0, false))), not(not(not(at(0, false)))),
		not(&PE{Op: "and", Args: []*PE{at(0, true), not(at(1, true))}}),
		not(&PE{Op: "or", Args: []*PE{at(0, false), at(1, true)}}),
		not(&PE{Op: "cmp", Sub: "lt", Args: []*PE{at(0, false), at(1, false)}}),
		not(&PE{Op: "cmp", Sub: "le", Args: []*PE{at(0, false), at(1, false)}}),
		not(&PE{Op: "cmp", Sub: "gt", Args: []*PE{at(0, false), at(1, false)}}),
		not(&PE{Op: "cmp", Sub: "ge", Args: []*PE{at(0, false), at(1, false)}}),
		not(&PE{Op: "cmp", Sub: "eq", Args: []*PE{at(0, false), at(1, false)}}),
		not(&PE{Op: "between", Args: []*PE{at(0, false), at(1, false), at(2, false)}}),
		&PE{Op: "other", N: 0, Args: []*PE{not(not(at(0, true))), not(&PE{Op: "cmp", Sub: "gt", Args: []*PE{at(0, false), at(1, false)}})}},
		not(&PE{Op: "other", N: 1, Bool: true, Args: []*PE{not(not(at(0, true)))}}),
	} {
		unitCase(out, ctx, e)
	}
	nUnit, nDb, perDb := 3000, 70, 8
	if a.Thorough {
		nUnit, nDb, perDb = 200000, 500, 8
	}
	for i := 0; i < nUnit; i++ {
		unitCase(out, ctx, genPE(r, r.Range(1, 5)))
	}

	// engine level
	rn := sqlgen.Runner{Out: out, Tag: "c05"}
	g := sqlgen.NewGen(r, sqlgen.Default())
	tlpCase := func(db *sqlgen.Db, parts [5]*sqlgen.Query, tys []sqlgen.Ty, where string) {
		var sqls, obs []string
		var feats []string
		inRegion, regionErr := false, ""
		for i, q := range parts {
			t := tys
			if i == 4 {
				t = append([]sqlgen.Ty{sqlgen.TInt}, tys...)
			}
			p := &sqlgen.Printer{Db: db}
			text := p.SQL(q)
			res := rn.Exec(text)
			sqls = append(sqls, hx.HexS(text))
			obs = append(obs, sqlgen.Canon(res, t, false))
			for f := range p.Feats {
				feats = append(feats, f)
			}
			inRegion = inRegion || inFoldFalseJoinRegion(q)
			if res.Err != nil && strings.Contains(res.Err.Error(), emptyTableReplanErr) && regionErr == "" {
				regionErr = fmt.Sprintf("statement %d fails with error %d (%v): %s", i, res.Errno, res.Err, text)
			}
		}
		sort.Strings(feats)
		qs := make([]string, 5)
		for i, q := range parts {
			qs[i] = q.Sexp()
		}
		if inRegion && regionErr != "" {
			// known finding: the outcome inside the region is not predictable from the case, the observation
			// is neutral (the driver re-decides the region on the terms) and the failure goes to the oracle
			id := out.Case(fmt.Sprintf("(c05 tlp-region %s %s (qs %s) (sql %s))", regionFoldFalseJoin, rn.DbSexp(), strings.Join(qs, " "), strings.Join(sqls, " ")), "region", false)
			out.Stat("tlp:" + where)
			out.Stat("tlp:region:" + regionFoldFalseJoin)
			out.OracleFail(id, regionFoldFalseJoin, regionErr)
			return
		}
		payload := fmt.Sprintf("(c05 tlp %s (qs %s) (feat %s) (sql %s))", rn.DbSexp(), strings.Join(qs, " "), strings.Join(feats, " "), strings.Join(sqls, " "))
		all, ok0 := multiset(obs[0])
		t, ok1 := multiset(obs[1])
		f, ok2 := multiset(obs[2])
		n, ok3 := multiset(obs[3])
		ok := ok0 && ok1 && ok2 && ok3
		nonEmpty := 0
		for _, m := range []map[string]int{t, f, n} {
			if len(m) > 0 {
				nonEmpty++
			}
		}
		id := out.Case(payload, strings.Join(obs, " | "), ok && len(all) > 0 && nonEmpty >= 2)
		out.Stat("tlp:" + where)
		if !ok {
			out.Stat("tlp:engine-error")
			return
		}
		// model-free oracle 1: Q = T ⊎ F ⊎ N as multisets
		sum := map[string]int{}
		for _, m := range []map[string]int{t, f, n} {
			for k, v := range m {
				sum[k] += v
			}
		}
		same := len(sum) == len(all)
		for k, v := range all {
			same = same && sum[k] == v
		}
		if !same {
			out.OracleFail(id, "-", fmt.Sprintf("rows of Q are not the disjoint union of the p / NOT p / p IS NULL parts (%s): Q=%s T=%s F=%s N=%s", where, obs[0], obs[1], obs[2], obs[3]))
		}
		// model-free oracle 2: WHERE keeps exactly the rows whose select-list p is TRUE
		if s, ok4 := multiset(obs[4]); ok4 {
			want := map[string]int{}
			for k, v := range s {
				cells := strings.SplitN(k, " ", 2)
				if cells[0] != "null" && cells[0] != "0" {
					rest := ""
					if len(cells) > 1 {
						rest = cells[1]
					}
					want[rest] += v
				}
			}
			same := len(want) == len(t)
			for k, v := range t {
				same = same && want[k] == v
			}
			if !same {
				out.OracleFail(id, "-", fmt.Sprintf("%s p keeps %s but SELECT p,* shows p TRUE exactly on %v", where, obs[1], want))
			}
		}
		if nonEmpty == 3 {
			out.Stat("tlp:all-three-parts-non-empty")
		}
	}
	for i := 0; i < nDb; i++ {
		db := g.GenDb()
		rn.Open(db)
		for k := 0; k < perDb; k++ {
			switch r.Intn(4) {
			case 0: // inner-join ON
				l, lt := g.Query(r.Intn(2))
				rq, rt := g.Query(r.Intn(2))
				all := append(append([]sqlgen.Ty(nil), lt...), rt...)
				if len(all) > 6 {
					continue
				}
				p := g.JoinOn(r.Range(0, 2), all)
				mk := func(on *sqlgen.Expr) *sqlgen.Query { return sqlgen.Join("inner", on, l.Clone(), rq.Clone()) }
				cols := []*sqlgen.Expr{p.Clone()}
				for j := range all {
					cols = append(cols, sqlgen.Col(0, j))
				}
				cross := mk(sqlgen.Lit(sqlgen.Int(1)))
				cross.Cross = true
				tlpCase(db, [5]*sqlgen.Query{cross, mk(p), mk(sqlgen.Not(p.Clone())), mk(sqlgen.Un("isnull", p.Clone())),
					sqlgen.Project(cols, mk(sqlgen.Lit(sqlgen.Int(1))))}, all, "ON")
			default:
				q, tys := g.Query(r.Intn(3))
				if r.Chance(1, 4) { // HAVING: group an arbitrary query by its first column
					in, it := g.Query(r.Intn(2))
					if it[0] != sqlgen.TBool {
						q = sqlgen.Group([]*sqlgen.Expr{sqlgen.Col(0, 0)}, []string{"countstar", "count"},
							[]*sqlgen.Expr{sqlgen.Lit(sqlgen.Int(1)), sqlgen.Col(0, len(it)-1)}, in)
						tys = []sqlgen.Ty{it[0], sqlgen.TInt, sqlgen.TInt}
					}
				}
				where := "WHERE"
				if q.Op == "group" {
					where = "HAVING"
				}
				depth := r.Range(0, 3)
				if where == "HAVING" {
					depth = r.Intn(2)
				}
				p := g.Pred(depth, [][]sqlgen.Ty{tys})
				cols := []*sqlgen.Expr{p.Clone()}
				for j := range tys {
					cols = append(cols, sqlgen.Col(0, j))
				}
				tlpCase(db, [5]*sqlgen.Query{q, sqlgen.Filter(p, q.Clone()), sqlgen.Filter(sqlgen.Not(p.Clone()), q.Clone()),
					sqlgen.Filter(sqlgen.Un("isnull", p.Clone()), q.Clone()), sqlgen.Project(cols, q.Clone())}, tys, where)
			}
		}
	}
	for k, v := range g.Stats {
		out.StatN(k, v)
	}

	// C05-specific streams (streams.go), each on its own generator state so that the streams above are
	// unchanged: predicates answered through index access paths, and predicates the filter
	// simplification rule rewrites / constant-folds, over NULL operands
	nIdx, nFold := 75, 50
	if a.Thorough {
		nIdx, nFold = 900, 600
	}
	idxStream(hx.NewRand(a.Seed^0x1d8c05a11ce5).Fork().Fork(), out, &rn, tlpCase, nIdx, 8)
	foldStream(hx.NewRand(a.Seed^0xf01dc05b0b0b0b).Fork().Fork(), out, &rn, tlpCase, nFold, 8)
	return nil
}
