// C26 — stream T `(tcmp ty a b)`: real datetimeType.Compare (DATE, DATETIME(p), TIMESTAMP(p)) on pairs of Go values
// (nil, time.Time in UTC or a fixed zone, strings in every accepted layout, zero representations, integers, unparseable
// strings) vs. the Lean Impl model Gms/Model/TimeCmp.lean; Spec = NULL first, then the chronological order of the
// converted values. Instants are exact integers of nanoseconds (the SQL range 0000..9999 is ~17 times wider than an
// int64 of nanoseconds), so a comparison through any narrower key is visible.
package main

import (
	"fmt"
	"go/ast"
	"math/big"
	"strings"
	"time"

	"github.com/cockroachdb/apd/v3"
	"github.com/dolthub/vitess/go/sqltypes"

	"github.com/dolthub/go-mysql-server/sql"
	"github.com/dolthub/go-mysql-server/sql/types"
	"github.com/dolthub/go-mysql-server/verifharness/hx"
)

// ---------------------------------------------------------------------------------------------
// Facts

// extractTemporal writes the facts about sql/types/datetime.go: the statement ladder of datetimeType.Compare (go/ast),
// the rounding table precisionConversion (go/ast), and run-time dumps of ZeroTime, the TIMESTAMP bounds and the
// `t == DatetimeMaxRange` identity.
func extractTemporal(a hx.ExtractArgs, b *strings.Builder) error {
	src, err := hx.ParseSrc(a.Repo, "sql/types/datetime.go")
	if err != nil {
		return err
	}
	fd, err := src.Func("datetimeType", "Compare")
	if err != nil {
		return err
	}
	norm := func(n ast.Node) string { return strings.Join(strings.Fields(src.Text(n)), " ") }
	var ladder []string
	var walkStmts func(list []ast.Stmt, depth string)
	walkIf := func(is *ast.IfStmt, depth string) {}
	walkIf = func(is *ast.IfStmt, depth string) {
		cond := norm(is.Cond)
		if is.Init != nil {
			cond = norm(is.Init) + "; " + cond
		}
		ladder = append(ladder, depth+"if "+cond)
		walkStmts(is.Body.List, depth+"  ")
		switch e := is.Else.(type) {
		case *ast.IfStmt:
			ladder = append(ladder, depth+"else")
			walkIf(e, depth)
		case *ast.BlockStmt:
			ladder = append(ladder, depth+"else")
			walkStmts(e.List, depth+"  ")
		}
	}
	walkStmts = func(list []ast.Stmt, depth string) {
		for _, st := range list {
			switch s := st.(type) {
			case *ast.IfStmt:
				walkIf(s, depth)
			case *ast.DeclStmt: // `var at time.Time` …: declarations carry no behaviour
			default:
				ladder = append(ladder, depth+norm(s))
			}
		}
	}
	walkStmts(fd.Body.List, "")
	if len(ladder) < 6 {
		return fmt.Errorf("datetimeType.Compare: unexpected shape %v", ladder)
	}
	var ls []string
	for _, l := range ladder {
		ls = append(ls, hx.LeanString(l))
	}
	fmt.Fprintf(b, "\n/-- `datetimeType.Compare` (go/ast): every statement in source order, nesting shown by indentation, declarations omitted -/\n")
	fmt.Fprintf(b, "def datetimeCompare : List String := [\n  %s]\n", strings.Join(ls, ",\n  "))

	// precisionConversion
	pc, err := src.PkgVarInit("precisionConversion")
	if err != nil {
		return err
	}
	cl, ok := pc.(*ast.CompositeLit)
	if !ok {
		return fmt.Errorf("precisionConversion: not a composite literal")
	}
	var pcs []string
	for _, e := range cl.Elts {
		pcs = append(pcs, strings.ReplaceAll(src.Text(e), "_", ""))
	}
	fmt.Fprintf(b, "\n/-- `precisionConversion` (go/ast): `ConvertToTime` rounds to `time.Second / precisionConversion[p]` -/\ndef precisionConversion : List Nat := [%s]\n", strings.Join(pcs, ", "))

	// run-time dumps
	fmt.Fprintf(b, "\n/-- `types.ZeroTime.Unix()`, and whether it has a sub-second part -/\ndef zeroTimeUnix : Int := %s\ndef zeroTimeNanos : Int := %d\n", hx.LeanInt(types.ZeroTime.Unix()), types.ZeroTime.Nanosecond())
	fmt.Fprintf(b, "/-- `types.Timestamp.MinimumTime()` / `MaximumTime()` as (Unix seconds, nanoseconds) -/\n")
	mn, mx := types.Timestamp.MinimumTime(), types.Timestamp.MaximumTime()
	fmt.Fprintf(b, "def timestampBounds : (Int × Int) × (Int × Int) := ((%s, %d), (%s, %d))\n", hx.LeanInt(mn.Unix()), mn.Nanosecond(), hx.LeanInt(mx.Unix()), mx.Nanosecond())
	var same []string
	for p := 0; p <= 6; p++ {
		same = append(same, fmt.Sprint(sql.Type(types.MustCreateDatetimeType(sqltypes.Datetime, p)) == sql.Type(types.DatetimeMaxRange)))
	}
	fmt.Fprintf(b, "/-- for p = 0..6: `MustCreateDatetimeType(Datetime, p) == DatetimeMaxRange` (the test `t == DatetimeMaxRange` in `ConvertToTime`) -/\n")
	fmt.Fprintf(b, "def isMaxRangeType : List Bool := [%s]\n", strings.Join(same, ", "))
	return nil
}

// ---------------------------------------------------------------------------------------------
// Values

// inst is an exact instant: seconds since the Unix epoch and nanoseconds in [0, 1e9).
type inst struct{ sec, ns int64 }

func (x inst) big() *big.Int {
	v := new(big.Int).Mul(big.NewInt(x.sec), big.NewInt(1000000000))
	return v.Add(v, big.NewInt(x.ns))
}

func instOfBig(v *big.Int) inst {
	q, m := new(big.Int).DivMod(v, big.NewInt(1000000000), new(big.Int)) // Euclidean: m in [0, 1e9)
	return inst{q.Int64(), m.Int64()}
}

func (x inst) add(d *big.Int) inst { return instOfBig(new(big.Int).Add(x.big(), d)) }

type fields struct{ y, mo, d, h, mi, s, ns int }

func (f fields) inst() inst {
	t := time.Date(f.y, time.Month(f.mo), f.d, f.h, f.mi, f.s, f.ns, time.UTC)
	return inst{t.Unix(), int64(t.Nanosecond())}
}

func fieldsOf(x inst) fields {
	t := time.Unix(x.sec, x.ns).UTC()
	return fields{t.Year(), int(t.Month()), t.Day(), t.Hour(), t.Minute(), t.Second(), t.Nanosecond()}
}

func daysIn(y, m int) int { return time.Date(y, time.Month(m)+1, 0, 0, 0, 0, 0, time.UTC).Day() }

func (f fields) valid() bool {
	return f.y >= 0 && f.y <= 9999 && f.mo >= 1 && f.mo <= 12 && f.d >= 1 && f.d <= daysIn(f.y, f.mo) && f.h >= 0 && f.h <= 23 &&
		f.mi >= 0 && f.mi <= 59 && f.s >= 0 && f.s <= 59 && f.ns >= 0 && f.ns <= 999999999
}

func frac(ns int) string {
	if ns == 0 {
		return ""
	}
	return "." + strings.TrimRight(fmt.Sprintf("%09d", ns), "0")
}

// render spells the fields in layout number `layout` (falls back to layout 0 when the layout cannot express them).
func (f fields) render(layout int) string {
	dateOnly := f.h == 0 && f.mi == 0 && f.s == 0 && f.ns == 0
	switch {
	case layout == 1 && dateOnly:
		return fmt.Sprintf("%04d-%02d-%02d", f.y, f.mo, f.d)
	case layout == 2 && f.ns == 0:
		return fmt.Sprintf("%04d%02d%02d%02d%02d%02d", f.y, f.mo, f.d, f.h, f.mi, f.s)
	case layout == 3:
		return fmt.Sprintf("%04d-%02d-%02dT%02d:%02d:%02d", f.y, f.mo, f.d, f.h, f.mi, f.s) + frac(f.ns)
	case layout == 4 && dateOnly:
		return fmt.Sprintf("%04d/%02d/%02d", f.y, f.mo, f.d)
	case layout == 5:
		return fmt.Sprintf("%04d-%d-%d %d:%d:%d", f.y, f.mo, f.d, f.h, f.mi, f.s) + frac(f.ns)
	case layout == 6 && f.s == 0 && f.ns == 0:
		return fmt.Sprintf("%04d-%02d-%02d %02d:%02d", f.y, f.mo, f.d, f.h, f.mi)
	case layout == 7:
		return fmt.Sprintf("%04d-%02d-%02dT%02d:%02d:%02d", f.y, f.mo, f.d, f.h, f.mi, f.s) + frac(f.ns) + "Z"
	}
	return fmt.Sprintf("%04d-%02d-%02d %02d:%02d:%02d", f.y, f.mo, f.d, f.h, f.mi, f.s) + frac(f.ns)
}

type tval struct {
	kind    string // null t c zero i bad
	payload string
	gov     interface{}
	x       inst // the instant the value denotes (kinds t and valid c)
	has     bool
}

func tNull() tval { return tval{kind: "null", payload: "null"} }

func tTime(x inst, offMin int) tval {
	g := time.Unix(x.sec, x.ns).UTC()
	if offMin != 0 {
		g = g.In(time.FixedZone("", offMin*60))
	}
	return tval{kind: "t", payload: hx.List("t", x.big().String(), fmt.Sprint(offMin)), gov: g, x: x, has: true}
}

func tStr(f fields, layout int, asBytes bool) tval {
	s := f.render(layout)
	var g interface{} = s
	bs := "0"
	if asBytes {
		g, bs = []byte(s), "1"
	}
	v := tval{kind: "c", payload: hx.List("c", fmt.Sprint(f.y), fmt.Sprint(f.mo), fmt.Sprint(f.d), fmt.Sprint(f.h), fmt.Sprint(f.mi), fmt.Sprint(f.s), fmt.Sprint(f.ns),
		fmt.Sprint(layout), bs, hx.HexS(s)), gov: g}
	if f.valid() {
		v.x, v.has = f.inst(), true
	}
	return v
}

func tZero(k int) tval {
	reps := []interface{}{"0000-00-00", "0000-00-00 00:00:00", int64(0), float64(0), new(apd.Decimal), false, "0000-00-00 00:00:00.000000", uint8(0), []byte("0000-00-00")}
	k %= len(reps)
	return tval{kind: "zero", payload: hx.List("zero", fmt.Sprint(k)), gov: reps[k]}
}

func tInt(r *hx.Rand, n int64) tval {
	if n == 0 {
		n = 20200102
	}
	return tval{kind: "i", payload: hx.List("i", fmt.Sprint(n)), gov: mkI(r, n).gov}
}

var badTimeStrings = []string{"", "abc", "2020", "2020-13", "12:34:56", "20-01-02x", "not a date", "2020-00-00", "99999-01-01", "-2020-01-02", "20200102T"}

func tBad(r *hx.Rand) tval {
	s := hx.Pick(r, badTimeStrings)
	return tval{kind: "bad", payload: hx.List("bad", hx.HexS(s)), gov: s}
}

// boundary instants: the ends of the SQL ranges, of the TIMESTAMP range, of the int64 ranges of nanoseconds /
// microseconds / 32-bit seconds since the epoch, calendar irregularities
var interestingFields = []fields{
	{0, 1, 1, 0, 0, 0, 0}, {0, 12, 31, 23, 59, 59, 0}, {1, 1, 1, 0, 0, 0, 0}, {999, 12, 31, 23, 59, 59, 0}, {1000, 1, 1, 0, 0, 0, 0},
	{1582, 10, 4, 0, 0, 0, 0}, {1582, 10, 15, 12, 0, 0, 0},
	{1677, 9, 21, 0, 12, 43, 145224192}, {1677, 9, 21, 0, 12, 43, 145224191}, {1677, 9, 21, 0, 12, 43, 0}, {1677, 9, 21, 0, 12, 44, 0}, {1677, 9, 20, 0, 0, 0, 0}, {1677, 9, 22, 0, 0, 0, 0},
	{1900, 2, 28, 23, 59, 59, 0}, {1900, 3, 1, 0, 0, 0, 0}, {1901, 12, 13, 20, 45, 52, 0}, {1901, 12, 13, 20, 45, 51, 0},
	{1969, 12, 31, 23, 59, 59, 999999999}, {1969, 12, 31, 23, 59, 59, 0}, {1970, 1, 1, 0, 0, 0, 0}, {1970, 1, 1, 0, 0, 1, 0}, {1970, 1, 1, 0, 0, 0, 500000000},
	{2000, 2, 29, 0, 0, 0, 0}, {2020, 1, 2, 3, 4, 5, 0}, {2020, 1, 2, 3, 4, 5, 123456000}, {2020, 1, 2, 3, 4, 5, 500000000}, {2020, 1, 2, 3, 4, 5, 499999999}, {2020, 1, 2, 0, 0, 0, 0},
	{2020, 12, 31, 23, 59, 59, 999999500}, {2038, 1, 19, 3, 14, 7, 0}, {2038, 1, 19, 3, 14, 8, 0}, {2038, 1, 19, 3, 14, 7, 999999000}, {2106, 2, 7, 6, 28, 15, 0}, {2106, 2, 7, 6, 28, 16, 0},
	{2262, 4, 11, 23, 47, 16, 854775807}, {2262, 4, 11, 23, 47, 16, 854775808}, {2262, 4, 11, 23, 47, 16, 0}, {2262, 4, 11, 23, 47, 17, 0}, {2262, 4, 11, 0, 0, 0, 0}, {2262, 4, 12, 0, 0, 0, 0},
	{2500, 6, 15, 8, 0, 0, 0}, {5000, 1, 1, 0, 0, 0, 0}, {9999, 12, 31, 0, 0, 0, 0}, {9999, 12, 31, 23, 59, 59, 0}, {9999, 12, 31, 23, 59, 59, 999999000}, {9999, 12, 31, 23, 59, 59, 499999500},
	{9999, 12, 31, 23, 59, 59, 999999500},
}

func randFields(r *hx.Rand, ts bool) fields {
	var f fields
	k := r.Intn(6)
	if ts && k >= 2 && r.Chance(3, 4) { // TIMESTAMP types: mostly inside and around 1970..2038
		k = 6
	}
	switch k {
	case 6:
		f.y = hx.Pick(r, []int{1969, 1970, 1970, 1971, 1999, 2000, 2020, 2037, 2038, 2038, 2039})
	case 0:
		return hx.Pick(r, interestingFields)
	case 1: // everyday dates
		f.y = r.Range(1960, 2045)
	case 2: // around the ends of the int64-nanosecond window
		f.y = hx.Pick(r, []int{1676, 1677, 1678, 2261, 2262, 2263})
	default: // the whole SQL range
		f.y = r.Range(0, 9999)
	}
	f.mo = r.Range(1, 12)
	f.d = r.Range(1, daysIn(f.y, f.mo))
	if r.Chance(1, 8) {
		f.d = daysIn(f.y, f.mo)
	}
	switch r.Intn(4) {
	case 0: // midnight
	case 1:
		f.h, f.mi, f.s = r.Range(0, 23), r.Range(0, 59), r.Range(0, 59)
	default:
		f.h, f.mi, f.s = r.Range(0, 23), r.Range(0, 59), r.Range(0, 59)
		switch r.Intn(4) {
		case 0:
			f.ns = r.Intn(1000000) * 1000
		case 1:
			f.ns = hx.Pick(r, []int{500000000, 499999999, 999999500, 999999499, 500, 499, 1, 999999999, 500000, 499500, 123456789})
		case 2:
			f.ns = r.Intn(1000000000)
		}
	}
	return f
}

var two63 = new(big.Int).Lsh(big.NewInt(1), 63)
var two64 = new(big.Int).Lsh(big.NewInt(1), 64)

// nearInst moves an instant by a step that a narrower or coarser sort key would lose: one unit of every precision,
// half units, a day, and the wrap-around periods of 64-bit (nanosecond, microsecond) and 32-bit (second) counters.
func nearInst(r *hx.Rand, x inst) inst {
	steps := []*big.Int{big.NewInt(1), big.NewInt(499), big.NewInt(500), big.NewInt(1000), big.NewInt(500000), big.NewInt(1000000), big.NewInt(500000000), big.NewInt(1000000000),
		big.NewInt(60000000000), big.NewInt(3600000000000), big.NewInt(43200000000000), big.NewInt(86400000000000), big.NewInt(86400000000000 * 31), big.NewInt(86400000000000 * 365),
		two63, two64, new(big.Int).Mul(two64, big.NewInt(2)), new(big.Int).Mul(big.NewInt(1<<32), big.NewInt(1000000000)), new(big.Int).Mul(big.NewInt(1<<31), big.NewInt(1000000000))}
	d := new(big.Int).Set(hx.Pick(r, steps))
	if r.Bool() {
		d.Neg(d)
	}
	return x.add(d)
}

var minStrInst = fields{0, 1, 1, 0, 0, 0, 0}.inst()
var maxStrInst = fields{9999, 12, 31, 23, 59, 59, 999999999}.inst()

func inStrRange(x inst) bool {
	return x.big().Cmp(minStrInst.big()) >= 0 && x.big().Cmp(maxStrInst.big()) <= 0
}

// tOfInst wraps an instant as a time.Time or (when a four-digit year can spell it) a string.
func tOfInst(r *hx.Rand, x inst) tval {
	if r.Chance(2, 5) || !inStrRange(x) {
		off := 0
		if r.Chance(1, 3) {
			off = hx.Pick(r, []int{60, -300, 330, 840, -720, 1})
		}
		return tTime(x, off)
	}
	return tStr(fieldsOf(x), r.Intn(9), r.Chance(1, 8))
}

func randTVal(r *hx.Rand, ts bool) tval {
	switch k := r.Intn(40); {
	case k == 0:
		return tNull()
	case k == 1:
		return tZero(r.Intn(9))
	case k == 2:
		return tInt(r, int64(r.Intn(3))*20200102)
	case k == 3:
		return tBad(r)
	case k == 4: // a string spelling an impossible date or time
		f := randFields(r, ts)
		switch r.Intn(4) {
		case 0:
			f.d = daysIn(f.y, f.mo) + 1
		case 1:
			f.mo = 13
		case 2:
			f.h = 24
		default:
			f.s = 60
		}
		l := 0
		if f.h == 0 && f.mi == 0 && f.s == 0 && f.ns == 0 && r.Bool() {
			l = 1
		}
		return tStr(f, l, false)
	case k == 5: // a time.Time beyond the SQL range
		x := fields{hx.Pick(r, []int{-1, -50, 0, 10000, 10050, 9999}), r.Range(1, 12), r.Range(1, 28), r.Range(0, 23), 0, 0, 0}.inst()
		return tTime(x, 0)
	}
	return tOfInst(r, randFields(r, ts).inst())
}

type tty struct {
	payload string
	t       sql.Type
}

func temporalTypes() []tty {
	return []tty{
		{"date", types.Date},
		{hx.List("datetime", "0"), types.Datetime},
		{hx.List("datetime", "3"), types.Datetime3},
		{hx.List("datetime", "6"), types.DatetimeMaxPrecision},
		{hx.List("timestamp", "0"), types.Timestamp},
		{hx.List("timestamp", "6"), types.TimestampMaxPrecision},
	}
}

// outside the window an int64 of nanoseconds since the epoch can express
func outsideNanoWindow(x inst) bool {
	lo, hi := big.NewInt(-1<<63), new(big.Int).Sub(two63, big.NewInt(1))
	return x.big().Cmp(lo) < 0 || x.big().Cmp(hi) > 0
}

func runTemporal(a hx.RunArgs, out *hx.Out, r *hx.Rand) {
	n := 4000
	if a.Thorough {
		n = 40000
	}
	tts := temporalTypes()
	emit := func(ty tty, x, y tval, stat string) {
		obs := cmpObs(ty.t, x.gov, y.gov)
		out.Case(hx.List("tcmp", ty.payload, x.payload, y.payload), obs, x.kind != "null" && y.kind != "null" && x.payload != y.payload)
		out.Stat(stat)
		out.Stat("tcmp-obs:" + obs)
		out.Stat("tcmp-kinds:" + x.kind + "/" + y.kind)
		if x.has && y.has && (outsideNanoWindow(x.x) || outsideNanoWindow(y.x)) {
			out.Stat("tcmp:operand-outside-int64-nanosecond-window")
		}
	}
	// corpus: witnesses of the listed regions, then one pair per boundary class
	f := func(y, mo, d, h, mi, s, ns int) fields { return fields{y, mo, d, h, mi, s, ns} }
	corpus := []struct {
		ty   int
		a, b tval
	}{
		{1, tNull(), tStr(f(2020, 1, 2, 3, 4, 5, 0), 0, false)}, {1, tStr(f(2020, 1, 2, 3, 4, 5, 0), 0, false), tNull()}, {1, tNull(), tNull()},
		{1, tTime(f(2020, 1, 2, 12, 0, 0, 600000000).inst(), 0), tTime(f(2020, 1, 2, 12, 0, 1, 0).inst(), 0)}, // time_operand_not_rounded
		{1, tStr(f(2020, 1, 2, 12, 0, 0, 600000000), 0, false), tTime(f(2020, 1, 2, 12, 0, 1, 0).inst(), 0)},  // a string is rounded: eq
		{1, tStr(f(9999, 12, 31, 0, 0, 0, 0), 1, false), tStr(f(5000, 1, 1, 0, 0, 0, 0), 1, false)},
		{0, tStr(f(9999, 12, 31, 0, 0, 0, 0), 1, false), tStr(f(5000, 1, 1, 0, 0, 0, 0), 1, false)},
		{3, tStr(f(2262, 4, 11, 23, 47, 17, 0), 0, false), tStr(f(1000, 1, 1, 0, 0, 0, 0), 0, false)},
		{3, tStr(f(1677, 9, 21, 0, 12, 43, 0), 0, false), tTime(f(1677, 9, 21, 0, 12, 44, 0).inst(), 0)},
		{3, tZero(0), tStr(f(0, 1, 1, 0, 0, 0, 0), 1, false)}, {1, tZero(2), tZero(1)}, {1, tInt(r, 20200102), tStr(f(2020, 1, 2, 0, 0, 0, 0), 1, false)},
		{4, tStr(f(2038, 1, 19, 3, 14, 7, 0), 0, false), tStr(f(1970, 1, 1, 0, 0, 1, 0), 0, false)}, {4, tStr(f(2038, 1, 19, 3, 14, 8, 0), 0, false), tStr(f(1970, 1, 1, 0, 0, 1, 0), 0, false)},
		{0, tTime(f(2020, 1, 2, 23, 0, 0, 0).inst(), -300), tStr(f(2020, 1, 2, 0, 0, 0, 0), 1, false)},
		{3, tStr(f(9999, 12, 31, 23, 59, 59, 999999500), 0, false), tStr(f(9999, 12, 31, 23, 59, 59, 999999000), 0, false)},
		{1, tStr(f(2021, 2, 29, 0, 0, 0, 0), 1, false), tStr(f(2021, 2, 28, 0, 0, 0, 0), 1, false)},
	}
	for _, c := range corpus {
		emit(tts[c.ty], c.a, c.b, "tcmp:corpus")
	}
	// the ladder of boundary instants: every neighbouring and one far pair, as strings and as time.Time
	for ti, ty := range tts {
		for i := range interestingFields {
			for _, j := range []int{i + 1, (i*7 + 3) % len(interestingFields)} {
				if j >= len(interestingFields) || (ti != 1 && ti != 3 && r.Chance(2, 3)) {
					continue
				}
				fi, fj := interestingFields[i], interestingFields[j]
				emit(ty, tStr(fi, 0, false), tStr(fj, 0, false), "tcmp:ladder")
				emit(ty, tTime(fj.inst(), 0), tStr(fi, 0, false), "tcmp:ladder")
			}
		}
	}
	for _, ty := range tts {
		for k := 0; k < n; k++ {
			ts := strings.Contains(ty.payload, "timestamp")
			x := randTVal(r, ts)
			y := randTVal(r, ts)
			if x.has && r.Chance(1, 3) { // a neighbour of x, or x itself in another representation
				if r.Chance(1, 4) {
					y = tOfInst(r, x.x)
				} else {
					y = tOfInst(r, nearInst(r, x.x))
				}
			}
			if r.Bool() {
				x, y = y, x
			}
			emit(ty, x, y, "tcmp:"+strings.Fields(strings.Trim(ty.payload, "()"))[0])
		}
	}
}
