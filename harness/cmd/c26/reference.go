// C26 — reference ranks for stream B (laws): for the types without an Impl model, the position of a generated value in
// the order of the type's converted values, where that is known without running the code under test. The Lean driver
// checks that every observed pairwise result agrees with the integer comparison of the ranks (`Tri.refOrder`), so a
// Compare that is still a consistent total order but orders by a narrowed / truncated / wrapped key is visible.
package main

import (
	"fmt"
	"math"
	"math/big"
	"strconv"
	"strings"
)

// TIME: microseconds. Strings of the generator's pool (table), Timespan values, integers in the hhmmss reading.
var timeStringMicros = map[string]int64{
	"00:00:00": 0, "12:34:56": 45296000000, "-12:34:56": -45296000000, "838:59:59": 3020399000000, "-838:59:59": -3020399000000,
	"00:00:01": 1000000, "23:59:59.5": 86399500000, "1:2:3": 3723000000, "100": 60000000, "1234": 754000000, "-1": -1000000,
}

// around the boundaries of a second, a minute, an hour, a day, 2^31 and 2^32 microseconds / milliseconds, and the type's range
var timespanBases = []int64{0, 1000000, 60000000, 3600000000, 45296000000, 86400000000, 86399500000, 2147483648, 4294967296, 2147483648000, 4294967296000,
	3020398999999, -1000000, -60000000, -3600000000, -45296000000, -86400000000, -2147483648, -4294967296, -3020398999999, 500000, -500000}

func rankTime(v interface{}, desc string) string {
	switch {
	case strings.HasPrefix(desc, "ts:"):
		return desc[3:]
	case strings.HasPrefix(desc, "s:"):
		if us, ok := timeStringMicros[desc[2:]]; ok {
			return fmt.Sprint(us)
		}
	case strings.HasPrefix(desc, "i:"): // MySQL reads an integer as [h]hmmss
		n, err := strconv.ParseInt(desc[2:], 10, 64)
		if err != nil {
			return "-"
		}
		abs, sign := n, int64(1)
		if n < 0 {
			abs, sign = -n, -1
		}
		h, m, s := abs/10000, (abs/100)%100, abs%100
		if m <= 59 && s <= 59 && h <= 838 && !(abs >= 60 && abs <= 99) {
			return fmt.Sprint(sign * ((h*3600 + m*60 + s) * 1000000))
		}
	}
	return "-"
}

// ENUM('a','b','c',”) under a case-insensitive collation: the member index (1-based).
func rankEnum(v interface{}, desc string) string {
	switch desc {
	case "s:a", "s:A", "i:1":
		return "1"
	case "s:b", "s:B", "i:2":
		return "2"
	case "s:c", "i:3":
		return "3"
	case "i:4":
		return "4"
	}
	return "-"
}

// SET('a','b','c') under a case-insensitive collation: the bit mask.
func rankSet(v interface{}, desc string) string {
	if strings.HasPrefix(desc, "u:") {
		if n, err := strconv.Atoi(desc[2:]); err == nil && n <= 7 {
			return fmt.Sprint(n)
		}
		return "-"
	}
	if !strings.HasPrefix(desc, "s:") {
		return "-"
	}
	mask := 0
	if desc[2:] != "" {
		for _, m := range strings.Split(desc[2:], ",") {
			switch strings.ToLower(m) {
			case "a":
				mask |= 1
			case "b":
				mask |= 2
			case "c":
				mask |= 4
			default:
				return "-"
			}
		}
	}
	return fmt.Sprint(mask)
}

// DOUBLE: Go integers that a float64 holds exactly and float64 values, as the exact number times 100.
func rankFloat64(v interface{}, desc string) string {
	var f float64
	switch x := v.(type) {
	case float64:
		f = x
	case int8, int16, int32, int64, int, uint8, uint16, uint32, uint64, uint:
		n, ok := new(big.Int).SetString(fmt.Sprint(x), 10)
		if !ok || n.BitLen() > 53 {
			return "-"
		}
		return new(big.Int).Mul(n, big.NewInt(100)).String()
	default:
		return "-"
	}
	if math.IsInf(f, 0) || math.IsNaN(f) {
		return "-"
	}
	r := new(big.Rat).SetFloat64(f)
	r.Mul(r, big.NewRat(100, 1))
	if !r.IsInt() {
		return "-"
	}
	return r.Num().String()
}
