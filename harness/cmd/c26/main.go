// C26 — Comparison of values is a consistent total order per type.
//
// extract: run-time dump of CompareNulls; go/ast of NumberTypeImpl_.Compare (which base types take the unsigned /
//
//	float / signed path, and the `ca = 0` on error of the signed path).
//
// run: stream T (temporal.go) `(tcmp ty a b)`: real datetimeType.Compare vs. the Lean model Gms/Model/TimeCmp.lean.
//
//	stream A `(cmp ty a b)`: real sql.Type.Compare on value pairs of the modelled types (10 integer types, DECIMAL,
//
//	YEAR, BIT) vs. the Lean Impl model; Spec = NULL first, then compare after Convert.
//	stream B `(laws …)`: triples of values of every type (also strings per collation, binary, date/time, float, enum,
//	set, JSON): the nine pairwise results are sent to the driver, which checks the order laws in Lean.
package main

import (
	"context"
	"fmt"
	"go/ast"
	"math/big"
	"os"
	"strings"
	"time"

	"github.com/cockroachdb/apd/v3"
	"github.com/dolthub/vitess/go/sqltypes"

	"github.com/dolthub/go-mysql-server/sql"
	"github.com/dolthub/go-mysql-server/sql/types"
	"github.com/dolthub/go-mysql-server/verifharness/hx"
)

func main() { hx.Main(extract, run) }

// ---------------------------------------------------------------------------------------------
// Facts

func extract(a hx.ExtractArgs) error {
	var b strings.Builder
	b.WriteString("/- GENERATED on every run by harness/cmd/c26 (extract) from the repository's working tree. Do not edit.\n")
	b.WriteString("   Sources: sql/types/conversion.go CompareNulls (run-time dump), sql/types/number.go NumberTypeImpl_.Compare (go/ast). -/\n")
	b.WriteString("namespace Gms.Generated.C26\n\n")

	// CompareNulls dumped from the compiled code
	type pr struct{ a, b interface{} }
	var rows []string
	for _, p := range []pr{{nil, nil}, {nil, int64(1)}, {int64(1), nil}, {int64(1), int64(2)}} {
		has, res := types.CompareNulls(p.a, p.b)
		rows = append(rows, fmt.Sprintf("(%v, %v, %v, %s)", p.a == nil, p.b == nil, has, hx.LeanInt(int64(res))))
	}
	fmt.Fprintf(&b, "/-- (a is nil, b is nil, hasNulls, result) of `types.CompareNulls` -/\ndef compareNullsTable : List (Bool × Bool × Bool × Int) := [%s]\n\n", strings.Join(rows, ", "))

	src, err := hx.ParseSrc(a.Repo, "sql/types/number.go")
	if err != nil {
		return err
	}
	fd, err := src.Func("NumberTypeImpl_", "Compare")
	if err != nil {
		return err
	}
	var sw *ast.SwitchStmt
	for _, st := range fd.Body.List {
		if s, ok := st.(*ast.SwitchStmt); ok && src.Text(s.Tag) == "t.baseType" {
			sw = s
		}
	}
	if sw == nil {
		return fmt.Errorf("NumberTypeImpl_.Compare: `switch t.baseType` not found")
	}
	for _, cc := range sw.Body.List {
		c := cc.(*ast.CaseClause)
		var names []string
		for _, e := range c.List {
			names = append(names, strings.TrimPrefix(src.Text(e), "sqltypes."))
		}
		// which converter the branch calls, and what it does on a conversion error
		conv, onErr := "", ""
		ast.Inspect(c, func(n ast.Node) bool {
			if call, ok := n.(*ast.CallExpr); ok {
				if id, ok := call.Fun.(*ast.Ident); ok && strings.HasPrefix(id.Name, "convertTo") && conv == "" {
					conv = id.Name
					if len(call.Args) == 3 {
						conv += ":" + src.Text(call.Args[2])
					}
				}
			}
			if is, ok := n.(*ast.IfStmt); ok && src.Text(is.Cond) == "err != nil" && onErr == "" && len(is.Body.List) == 1 {
				onErr = strings.Join(strings.Fields(src.Text(is.Body.List[0])), " ")
			}
			return true
		})
		kind := "default"
		if len(names) > 0 {
			kind = strings.Join(names, ",")
		}
		fmt.Fprintf(&b, "def compareBranch_%d : String × String × String := (%s, %s, %s)\n", len(names), hx.LeanString(kind), hx.LeanString(conv), hx.LeanString(onErr))
	}
	// DecimalType_.Compare, YearType_.Compare, BitType_.Compare (go/ast): the converter applied to both operands, what
	// happens on a conversion error, and the (condition → result) ladder that follows
	var shapes []string
	for _, sp := range []struct{ file, recv string }{{"sql/types/decimal.go", "DecimalType_"}, {"sql/types/year.go", "YearType_"}, {"sql/types/bit.go", "BitType_"}} {
		psrc, err := hx.ParseSrc(a.Repo, sp.file)
		if err != nil {
			return err
		}
		cfd, err := psrc.Func(sp.recv, "Compare")
		if err != nil {
			return err
		}
		var convs, onErrs, ladder []string
		var walk func(n ast.Node) bool
		walk = func(n ast.Node) bool {
			switch x := n.(type) {
			case *ast.CallExpr:
				if sel, ok := x.Fun.(*ast.SelectorExpr); ok && strings.HasPrefix(sel.Sel.Name, "Convert") {
					convs = append(convs, psrc.Text(x.Fun))
				}
			case *ast.IfStmt:
				cond := strings.Join(strings.Fields(psrc.Text(x.Cond)), " ")
				body := ""
				if len(x.Body.List) == 1 {
					body = strings.Join(strings.Fields(psrc.Text(x.Body.List[0])), " ")
				}
				if x.Init != nil { // `if hasNulls, res := CompareNulls(a, b); hasNulls`
					cond = strings.Join(strings.Fields(psrc.Text(x.Init)), " ") + "; " + cond
				}
				if cond == "err != nil" {
					onErrs = append(onErrs, body)
				} else {
					ladder = append(ladder, hx.LeanString("if "+cond+" => "+body))
				}
			case *ast.ReturnStmt:
				// the final unconditional return of the function body
			}
			return true
		}
		ast.Inspect(cfd.Body, walk)
		last := ""
		if n := len(cfd.Body.List); n > 0 {
			last = strings.Join(strings.Fields(psrc.Text(cfd.Body.List[n-1])), " ")
		}
		if len(convs) != 2 || len(onErrs) != 2 {
			return fmt.Errorf("%s.Compare: expected two operand conversions with error checks, found %v / %v", sp.recv, convs, onErrs)
		}
		items := []string{hx.LeanString("a: " + convs[0] + " / on error: " + onErrs[0]), hx.LeanString("b: " + convs[1] + " / on error: " + onErrs[1])}
		items = append(items, ladder...)
		items = append(items, hx.LeanString(last))
		shapes = append(shapes, fmt.Sprintf("(%s, [%s])", hx.LeanString(sp.recv), strings.Join(items, ", ")))
	}
	fmt.Fprintf(&b, "\n/-- `Compare` of DECIMAL, YEAR, BIT: (receiver, [conversion of a and its error branch, the same for b, the `if cond => statement` ladder in source order, last statement]) -/\n")
	fmt.Fprintf(&b, "def compareShapes : List (String × List String) := [\n  %s]\n", strings.Join(shapes, ",\n  "))
	if err := extractTemporal(a, &b); err != nil {
		return err
	}
	b.WriteString("\nend Gms.Generated.C26\n")
	return os.WriteFile(a.Out, []byte(b.String()), 0o644)
}

// ---------------------------------------------------------------------------------------------
// Values

type val struct {
	kind string // null i u d s  | other (stream B only: f t x)
	v    *big.Int
	sc   int
	str  string
	gov  interface{} // the Go value handed to the real code
	desc string
}

func (v val) payload() string {
	switch v.kind {
	case "null":
		return "null"
	case "i":
		return hx.List("i", v.v.String())
	case "u":
		return hx.List("u", v.v.String())
	case "d":
		return hx.List("d", v.v.String(), fmt.Sprint(v.sc))
	case "s":
		return hx.List("s", hx.HexS(v.str))
	}
	return hx.List("x", hx.HexS(v.desc))
}

func pow10(n int) *big.Int { return new(big.Int).Exp(big.NewInt(10), big.NewInt(int64(n)), nil) }

func mkI(r *hx.Rand, x int64) val {
	// the same value in a random Go signed type that can hold it
	var g interface{} = x
	switch r.Intn(5) {
	case 0:
		if x >= -128 && x <= 127 {
			g = int8(x)
		}
	case 1:
		if x >= -32768 && x <= 32767 {
			g = int16(x)
		}
	case 2:
		if x >= -2147483648 && x <= 2147483647 {
			g = int32(x)
		}
	case 3:
		g = int(x)
	}
	return val{kind: "i", v: big.NewInt(x), gov: g}
}

func mkU(r *hx.Rand, x uint64) val {
	var g interface{} = x
	switch r.Intn(5) {
	case 0:
		if x <= 255 {
			g = uint8(x)
		}
	case 1:
		if x <= 65535 {
			g = uint16(x)
		}
	case 2:
		if x <= 4294967295 {
			g = uint32(x)
		}
	case 3:
		if x <= 9223372036854775807 { // a Go `uint` above MaxInt64 is converted by a wrapping int64(v): not a value the engine produces
			g = uint(x)
		}
	}
	return val{kind: "u", v: new(big.Int).SetUint64(x), gov: g}
}

func mkD(c *big.Int, sc int) val {
	d := new(apd.Decimal)
	d.Coeff.SetMathBigInt(new(big.Int).Abs(c))
	d.Negative = c.Sign() < 0
	d.Exponent = int32(-sc)
	return val{kind: "d", v: c, sc: sc, gov: d}
}

func mkS(s string) val { return val{kind: "s", str: s, gov: s} }

var interestingInts = []int64{0, 1, -1, 2, 69, 70, 99, 100, 127, 128, -128, -129, 255, 256, 1900, 1901, 2000, 2155, 2156, 32767, 32768, -32768, 65535, 65536,
	8388607, 8388608, -8388608, -8388609, 16777215, 16777216, 2147483647, 2147483648, -2147483648, -2147483649, 4294967295, 4294967296,
	9223372036854775807, -9223372036854775808, 9223372036854775806, -9223372036854775807}

func randInt64(r *hx.Rand) int64 {
	switch r.Intn(4) {
	case 0:
		return hx.Pick(r, interestingInts)
	case 1:
		return int64(r.Intn(41) - 20)
	case 2:
		k := uint(r.Intn(64))
		x := int64(r.U64() >> (63 - k) >> 1)
		if r.Bool() {
			x = -x
		}
		return x
	}
	return hx.Pick(r, interestingInts) + int64(r.Intn(5)-2)
}

func randUint64(r *hx.Rand) uint64 {
	switch r.Intn(4) {
	case 0:
		return hx.Pick(r, []uint64{0, 1, 255, 256, 65535, 65536, 4294967295, 4294967296, 9223372036854775807, 9223372036854775808, 18446744073709551615, 18446744073709551614})
	case 1:
		return uint64(r.Intn(300))
	case 2:
		return r.U64() >> uint(r.Intn(64))
	}
	return 9223372036854775808 + uint64(r.Intn(5)) - 2
}

func randDec(r *hx.Rand) val {
	sc := r.Intn(5)
	var c *big.Int
	switch r.Intn(5) {
	case 0: // integer-valued, around an interesting integer
		c = new(big.Int).Mul(big.NewInt(hx.Pick(r, interestingInts)), pow10(sc))
	case 1: // half-way cases around interesting integers
		c = new(big.Int).Mul(big.NewInt(hx.Pick(r, interestingInts)), pow10(sc))
		if sc > 0 {
			c.Add(c, new(big.Int).Mul(big.NewInt(int64(r.Intn(3)+4)), pow10(sc-1))) // .4 .5 .6
			if r.Bool() {
				c.Sub(c, pow10(sc))
			}
		}
	case 2: // beyond the 64-bit ranges
		c = new(big.Int).Mul(new(big.Int).SetUint64(r.U64()), big.NewInt(int64(r.Intn(40)+1)))
		if r.Bool() {
			c.Neg(c)
		}
	default:
		c = new(big.Int).SetUint64(r.U64() >> uint(r.Intn(64)))
		if r.Bool() {
			c.Neg(c)
		}
	}
	return mkD(c, sc)
}

var stringPool = []string{"", "0", "1", "-1", "+5", "12", "12abc", "abc", " 42", "42 ", "\t7", "-", "+", "--5", "+-5", "1.9", "-1.5", "1e3", "007",
	"9223372036854775807", "9223372036854775808", "-9223372036854775808", "-9223372036854775809", "18446744073709551615", "18446744073709551616",
	"99999999999999999999999", "-99999999999999999999999", "255", "256", "-129", "65536", " -12x", "1 2", "\x00", "٣"}

func randStr(r *hx.Rand) val {
	if r.Chance(2, 3) {
		return mkS(hx.Pick(r, stringPool))
	}
	alpha := "0123456789+- .\tabe"
	n := r.Intn(8)
	bs := make([]byte, n)
	for i := range bs {
		if r.Chance(3, 4) {
			bs[i] = "0123456789"[r.Intn(10)]
		} else {
			bs[i] = alpha[r.Intn(len(alpha))]
		}
	}
	return mkS(string(bs))
}

func randNumVal(r *hx.Rand, withStrings bool) val {
	k := r.Intn(12)
	switch {
	case k == 0:
		return val{kind: "null"}
	case k <= 4:
		return mkI(r, randInt64(r))
	case k <= 7:
		return mkU(r, randUint64(r))
	case k <= 9 || !withStrings:
		return randDec(r)
	}
	return randStr(r)
}

// ---------------------------------------------------------------------------------------------
// Types

type mty struct { // modelled type
	payload     string
	t           sql.Type
	withStrings bool
}

func modelledTypes() []mty {
	var out []mty
	for _, n := range []struct {
		name string
		t    sql.Type
	}{{"i8", types.Int8}, {"u8", types.Uint8}, {"i16", types.Int16}, {"u16", types.Uint16}, {"i24", types.Int24}, {"u24", types.Uint24},
		{"i32", types.Int32}, {"u32", types.Uint32}, {"i64", types.Int64}, {"u64", types.Uint64}} {
		out = append(out, mty{hx.List("int", n.name), n.t, true})
	}
	for _, d := range [][2]uint8{{10, 0}, {10, 2}, {20, 4}, {65, 30}} {
		out = append(out, mty{hx.List("dec", fmt.Sprint(d[0]), fmt.Sprint(d[1]), "0"), types.MustCreateDecimalType(d[0], d[1]), false})
		out = append(out, mty{hx.List("dec", fmt.Sprint(d[0]), fmt.Sprint(d[1]), "1"), types.MustCreateColumnDecimalType(d[0], d[1]), false})
	}
	out = append(out, mty{"year", types.Year, false})
	for _, n := range []uint8{1, 8, 17, 64} {
		out = append(out, mty{hx.List("bit", fmt.Sprint(n)), types.MustCreateBitType(n), true})
	}
	return out
}

func cmpObs(t sql.Type, a, b interface{}) string {
	res := ""
	p := hx.Safe(func() {
		c, err := t.Compare(context.Background(), a, b)
		switch {
		case err != nil:
			res = "err"
		case c < 0:
			res = "lt"
		case c > 0:
			res = "gt"
		default:
			res = "eq"
		}
	})
	if p != "" {
		return "crash"
	}
	return res
}

// ---------------------------------------------------------------------------------------------
// Stream B: every type, order laws

type lty struct {
	name string
	t    sql.Type
	gen  func(r *hx.Rand) (interface{}, string)
	// rank (optional): the position of a generated value in the order the type's converted values have, as an integer,
	// when that is known independently of the code under test (reference.go); "-" otherwise
	rank func(v interface{}, desc string) string
}

func lawTypes() []lty {
	var out []lty
	num := func(r *hx.Rand) (interface{}, string) {
		v := randNumVal(r, true)
		if r.Chance(1, 6) {
			f := []float64{0, 0.5, -0.5, 1.5, 2.5, 1e10, -1e19, 1e19, 3.14, 127.5, 1e300}[r.Intn(11)]
			return f, fmt.Sprintf("f:%v", f)
		}
		return v.gov, v.payload()
	}
	for _, m := range modelledTypes() {
		out = append(out, lty{name: m.payload, t: m.t, gen: num})
	}
	out = append(out, lty{name: "float64", t: types.Float64, gen: num, rank: rankFloat64}, lty{name: "float32", t: types.Float32, gen: num})
	words := []string{"", "a", "A", "b", "B", "ab", "aB", "Ab", "abc", "á", "Á", "ä", "z", "Z", "a ", "a  ", " a", "ß", "ss", "0", "10", "9", "é", "e", "E", "é", "é", "😀", "ÿ"}
	str := func(r *hx.Rand) (interface{}, string) {
		if r.Chance(1, 12) {
			return nil, "null"
		}
		if r.Chance(1, 10) {
			x := int64(r.Intn(20))
			return x, fmt.Sprintf("i:%d", x)
		}
		s := hx.Pick(r, words)
		if r.Chance(1, 3) {
			s += hx.Pick(r, words)
		}
		return s, "s:" + s
	}
	for _, c := range []sql.CollationID{sql.Collation_utf8mb4_0900_bin, sql.Collation_utf8mb4_0900_ai_ci, sql.Collation_utf8mb4_general_ci, sql.Collation_utf8mb4_unicode_ci,
		sql.Collation_latin1_swedish_ci, sql.Collation_utf8mb4_bin, sql.Collation_utf8mb3_general_ci, sql.Collation_ascii_general_ci} {
		out = append(out, lty{name: "varchar:" + c.Name(), t: types.MustCreateString(sqltypes.VarChar, 40, c), gen: str})
	}
	out = append(out, lty{name: "text", t: types.Text, gen: str})
	out = append(out, lty{name: "varbinary", t: types.MustCreateBinary(sqltypes.VarBinary, 40), gen: func(r *hx.Rand) (interface{}, string) {
		if r.Chance(1, 12) {
			return nil, "null"
		}
		s := hx.Pick(r, words)
		if r.Bool() {
			return []byte(s), "b:" + s
		}
		return s, "s:" + s
	}})
	times := []string{"2020-01-02 03:04:05", "2020-01-02", "1000-01-01 00:00:00", "9999-12-31 23:59:59", "2020-01-02 03:04:05.123456", "2020-01-02 03:04:06", "2019-12-31 23:59:59",
		"1970-01-01 00:00:01", "2038-01-19 03:14:07", "2020-02-29", "2021-02-28 12:00:00", "2020-01-02 00:00:00",
		"0001-01-01", "1500-06-15", "1677-09-21 00:12:43", "2262-04-11 23:47:17", "2500-06-15 08:00:00", "5000-01-01"}
	dt := func(r *hx.Rand) (interface{}, string) {
		if r.Chance(1, 12) {
			return nil, "null"
		}
		s := hx.Pick(r, times)
		if r.Chance(1, 3) {
			layouts := []string{"2006-01-02 15:04:05.999999", "2006-01-02 15:04:05", "2006-01-02"}
			for _, l := range layouts {
				if tm, err := time.Parse(l, s); err == nil {
					return tm, "t:" + s
				}
			}
		}
		if r.Chance(1, 8) {
			x := int64(20200102)
			return x, "i:20200102"
		}
		return s, "s:" + s
	}
	out = append(out, lty{name: "datetime", t: types.Datetime, gen: dt}, lty{name: "datetime6", t: types.DatetimeMaxPrecision, gen: dt}, lty{name: "date", t: types.Date, gen: dt},
		lty{name: "timestamp", t: types.Timestamp, gen: dt})
	spans := []string{"00:00:00", "12:34:56", "-12:34:56", "838:59:59", "-838:59:59", "00:00:01", "23:59:59.5", "1:2:3", "100", "1234", "-1"}
	out = append(out, lty{name: "time", t: types.Time, rank: rankTime, gen: func(r *hx.Rand) (interface{}, string) {
		if r.Chance(1, 12) {
			return nil, "null"
		}
		if r.Chance(1, 3) { // a Timespan value (microseconds), around a boundary of every coarser unit
			us := hx.Pick(r, timespanBases) + int64(r.Intn(3)-1)
			return types.Timespan(us), fmt.Sprintf("ts:%d", us)
		}
		if r.Chance(1, 5) {
			x := int64(r.Intn(240000) - 120000)
			return x, fmt.Sprintf("i:%d", x)
		}
		s := hx.Pick(r, spans)
		return s, "s:" + s
	}})
	out = append(out, lty{name: "enum", rank: rankEnum, t: types.MustCreateEnumType([]string{"a", "b", "c", ""}, sql.Collation_utf8mb4_0900_ai_ci), gen: func(r *hx.Rand) (interface{}, string) {
		if r.Chance(1, 12) {
			return nil, "null"
		}
		if r.Bool() {
			x := int64(r.Intn(7) - 1)
			return x, fmt.Sprintf("i:%d", x)
		}
		s := hx.Pick(r, []string{"a", "b", "c", "", "A", "d", "B"})
		return s, "s:" + s
	}})
	out = append(out, lty{name: "set", rank: rankSet, t: types.MustCreateSetType([]string{"a", "b", "c"}, sql.Collation_utf8mb4_0900_ai_ci), gen: func(r *hx.Rand) (interface{}, string) {
		if r.Chance(1, 12) {
			return nil, "null"
		}
		if r.Bool() {
			x := uint64(r.Intn(9))
			return x, fmt.Sprintf("u:%d", x)
		}
		s := hx.Pick(r, []string{"a", "b", "c", "", "a,b", "b,a", "a,c", "a,b,c", "A", "d", "c,b"})
		return s, "s:" + s
	}})
	jsons := []interface{}{nil, true, false, float64(1), float64(2), float64(-1), float64(1.5), "a", "b", "", "A", []interface{}{}, []interface{}{float64(1)}, []interface{}{float64(1), float64(2)},
		[]interface{}{"a"}, map[string]interface{}{}, map[string]interface{}{"a": float64(1)}, map[string]interface{}{"a": float64(2)}, map[string]interface{}{"b": float64(1)},
		map[string]interface{}{"a": float64(1), "b": float64(2)}, float64(10), "10"}
	out = append(out, lty{name: "json", t: types.JSON, gen: func(r *hx.Rand) (interface{}, string) {
		if r.Chance(1, 12) {
			return nil, "null"
		}
		j := hx.Pick(r, jsons)
		return types.JSONDocument{Val: j}, fmt.Sprintf("j:%v", j)
	}})
	return out
}

// ---------------------------------------------------------------------------------------------

func run(a hx.RunArgs) error {
	out := hx.NewOut(a.OutDir)
	defer out.Close()
	out.Rule = "cmp: real sql.Type.Compare on pairs of Go values (nil, signed and unsigned Go integers of every width, *apd.Decimal incl. half-way and beyond-64-bit " +
		"values, numeric/malformed strings) under each modelled type (10 integer types, DECIMAL(p,s) column and non-column, YEAR, BIT(1/8/17/64)); " +
		"tcmp: real datetimeType.Compare under DATE, DATETIME(0/3/6), TIMESTAMP(0/6) on pairs of nil, time.Time (UTC or fixed zone, years -50..10050), strings in nine layouts " +
		"(valid dates of the whole range 0000..9999, impossible dates), zero representations, integers, unparseable strings; boundary ladder (ends of the SQL, TIMESTAMP, " +
		"int64-nanosecond and 32-bit-second ranges) and neighbours at every precision step / counter wrap-around period; " +
		"laws: triples of values under every type incl. strings per collation, binary, date/time, float, enum, set, JSON — the nine pairwise results, and for TIME, ENUM, SET, DOUBLE " +
		"the reference rank of each value where it is known independently (microseconds, member index, bit mask, exact number); " +
		"a case is non-trivial when both values are non-NULL and differ in representation or value"
	r := hx.NewRand(a.Seed).Fork() // Fork: hx.NewRand(seed+1) is hx.NewRand(seed) shifted by one draw
	nA, nB := 6000, 1500
	if a.Thorough {
		nA, nB = 60000, 12000
	}

	mts := modelledTypes()
	corpus := []struct {
		ty   int
		a, b val
	}{
		{8, val{kind: "null"}, mkI(r, 1)}, {8, mkI(r, 1), val{kind: "null"}}, {8, val{kind: "null"}, val{kind: "null"}},
		{0, mkI(r, 200), mkI(r, 300)},                                            // Int8: both beyond the type's range
		{8, mkS("12abc"), mkI(r, 5)}, {8, mkS("9223372036854775808"), mkI(r, 0)}, // signed path: error ⇒ 0
		{9, mkS("12abc"), mkI(r, 5)}, {9, mkI(r, -1), mkU(r, 18446744073709551615)},
		{8, mkU(r, 9223372036854775808), mkU(r, 18446744073709551615)},
	}
	for _, c := range corpus {
		m := mts[c.ty]
		out.Case(hx.List("cmp", m.payload, c.a.payload(), c.b.payload()), cmpObs(m.t, c.a.gov, c.b.gov), c.a.kind != "null" && c.b.kind != "null")
		out.Stat("cmp:corpus")
	}
	for _, m := range mts {
		for k := 0; k < nA; k++ {
			x := randNumVal(r, m.withStrings)
			y := randNumVal(r, m.withStrings)
			if r.Chance(1, 6) { // near-equal pairs in different representations
				if x.kind == "i" && x.v.Sign() >= 0 {
					y = mkU(r, x.v.Uint64())
				} else if x.kind == "i" || x.kind == "u" {
					y = mkD(new(big.Int).Mul(x.v, pow10(2)), 2)
				} else if x.kind == "d" { // a neighbour that rounding to the type's scale may or may not merge with x
					y = mkD(new(big.Int).Add(x.v, big.NewInt(int64(r.Intn(13)-6))), x.sc)
				}
			}
			obs := cmpObs(m.t, x.gov, y.gov)
			out.Case(hx.List("cmp", m.payload, x.payload(), y.payload()), obs, x.kind != "null" && y.kind != "null" && x.payload() != y.payload())
			out.Stat("cmp:" + strings.Fields(strings.Trim(m.payload, "()"))[0])
			out.Stat("cmp-obs:" + obs)
		}
	}

	runTemporal(a, out, r.Fork())

	for _, lt := range lawTypes() {
		for k := 0; k < nB; k++ {
			var gv [3]interface{}
			var ds [3]string
			for i := range gv {
				gv[i], ds[i] = lt.gen(r)
			}
			if r.Chance(1, 5) {
				gv[2], ds[2] = gv[0], ds[0]
			}
			var res []string
			for _, p := range [][2]int{{0, 1}, {1, 0}, {1, 2}, {2, 1}, {0, 2}, {2, 0}, {0, 0}, {1, 1}, {2, 2}} {
				res = append(res, cmpObs(lt.t, gv[p[0]], gv[p[1]]))
			}
			nulls := ""
			for i := range gv {
				if gv[i] == nil {
					nulls += "1"
				} else {
					nulls += "0"
				}
			}
			obs := strings.Join(res, " ")
			items := []string{"laws", hx.HexS(lt.name), "n" + nulls, obs, hx.HexS(strings.Join(ds[:], " | "))}
			if lt.rank != nil { // the order the converted values have, where known without the code under test
				rk := []string{"ranks"}
				for i := range gv {
					rk = append(rk, "-")
					if gv[i] != nil {
						rk[len(rk)-1] = lt.rank(gv[i], ds[i])
					}
					if rk[len(rk)-1] != "-" {
						out.Stat("laws-ranked-value:" + lt.name)
					}
				}
				items = append(items, hx.List(rk...))
			}
			payload := hx.List(items...)
			out.Case(payload, obs, nulls == "000" && ds[0] != ds[1] && ds[1] != ds[2])
			out.Stat("laws:" + strings.SplitN(lt.name, ":", 2)[0])
		}
	}
	return nil
}
