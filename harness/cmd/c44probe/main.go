// c44probe — scratch probe for C44 (not part of the check): runs "<sess>: <sql>" lines from stdin.
package main

import (
	"bufio"
	"fmt"
	"os"
	"strings"

	"context"
	"github.com/dolthub/go-mysql-server/memory"
	"github.com/dolthub/go-mysql-server/sql"
	"github.com/dolthub/go-mysql-server/sql/types"
	"github.com/dolthub/go-mysql-server/sql/variables"
	"github.com/dolthub/go-mysql-server/verifharness/hx/eng"
)

var connID uint32 = 1000
var persisted = memory.GlobalsMap{}

func main() {
	if len(os.Args) > 1 && os.Args[1] == "dump" {
		kinds := map[string]int{}
		for _, e := range variables.VerifRegistry() {
			m, ok := e.Var.(*sql.MysqlSystemVariable)
			if !ok {
				fmt.Println("non-mysql var", e.Key)
				continue
			}
			d := types.VerifDescribeSysVarType(m.Type)
			kinds[d.Kind+"/"+m.Scope.Type.String()+fmt.Sprintf("/dyn=%v", m.Dynamic)]++
			fmt.Printf("%s\t%s\t%s\t%s\tdyn=%v\t%s [%s,%s] neg=%v %q\tdef=%T(%v)\tvf=%v nc=%v\n", e.Table, e.Key, m.Name, m.Scope.Type, m.Dynamic, d.Kind, d.Lo, d.Hi, d.NegOne, d.Values, m.Default, m.Default, m.ValueFunction != nil, m.NotifyChanged != nil)
		}
		for k, n := range kinds {
			fmt.Fprintln(os.Stderr, k, n)
		}
		return
	}
	e := eng.New("d")
	sess := map[string]*sql.Context{}
	sc := bufio.NewScanner(os.Stdin)
	for sc.Scan() {
		line := strings.TrimSpace(sc.Text())
		if line == "" || strings.HasPrefix(line, "#") {
			continue
		}
		i := strings.Index(line, ":")
		name, q := line[:i], strings.TrimSpace(line[i+1:])
		ctx, ok := sess[name]
		if !ok {
			connID++
			bs := sql.NewBaseSessionWithClientServer("localhost:3306", sql.Client{Address: "localhost", User: "root"}, connID)
			ms := memory.NewSession(bs, e.Pro).SetGlobals(persisted)
			ctx = sql.NewContext(context.Background(), sql.WithSession(ms))
			ctx.SetCurrentDatabase("d")
			sess[name] = ctx
		}
		if q == "persisted" {
			fmt.Printf("persisted: %v\n", persisted)
			continue
		}
		r := e.Query(eng.SameSession(ctx), q)
		fmt.Printf("%s: %s\n   => %s", name, q, r.Class())
		if r.Err != nil {
			fmt.Printf(" %v", r.Err)
		}
		if r.Panic != "" {
			fmt.Printf(" PANIC %s", r.Panic)
		}
		for i, row := range r.Rows {
			fmt.Printf(" %v types=%v", row, r.Types)
			_ = i
		}
		fmt.Println()
	}
}
