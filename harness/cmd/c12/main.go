// C12 — Prepared statements behave like the inlined statement text.
//
//	c12 extract   facts: the AST literal class server.bindingsToExprs produces for every wire type vs. the class the
//	              parser assigns to the literal text of the same value (run time); the error texts and the
//	              `used` bookkeeping of BindvarContext / normalizeValArg / QueryWithBindings (go/ast)
//	c12 run       histories of parameterised statements over t(id INT PRIMARY KEY, k INT, s VARCHAR(20)), each executed
//	              (a) through Engine.PrepareQuery + QueryWithBindings (the path of ComStmtExecute), the observation,
//	              (b) through SQL PREPARE / SET @p / EXECUTE … USING,
//	              (c) through a real server + go-sql-driver prepared statements (binary protocol),
//	              (d) as the statement text with the values written as literals;
//	              model-free oracle (a)=(b)=(c)=(d) on rows, affected-row counts and error classes; the Lean driver
//	              predicts (a) with the Impl model `exec` and (d) with the Spec `execInlined`.
package main

import (
	"context"
	dsql "database/sql"
	"fmt"
	"go/ast"
	"io"
	"net"
	"os"
	"sort"
	"strconv"
	"strings"
	"time"

	"github.com/dolthub/go-mysql-server/memory"
	"github.com/dolthub/go-mysql-server/server"
	"github.com/dolthub/go-mysql-server/sql"
	"github.com/dolthub/go-mysql-server/sql/types"
	"github.com/dolthub/go-mysql-server/verifharness/hx"
	"github.com/dolthub/go-mysql-server/verifharness/hx/eng"
	querypb "github.com/dolthub/vitess/go/vt/proto/query"
	"github.com/dolthub/vitess/go/sqltypes"
	"github.com/dolthub/vitess/go/vt/sqlparser"
	gomysql "github.com/go-sql-driver/mysql"
)

func main() {
	if len(os.Args) > 1 && os.Args[1] == "script" {
		os.Exit(scriptMain())
	}
	hx.Main(extract, run)
}

// ---------------------------------------------------------------------------------------------
// Terms (mirror of Gms/Model/Prepared.lean)

type value struct {
	kind string // null | int | str
	i    int64
	s    string
}

func vnull() value         { return value{kind: "null"} }
func vint(i int64) value   { return value{kind: "int", i: i} }
func vstr(s string) value  { return value{kind: "str", s: s} }
func (v value) sexp() string {
	switch v.kind {
	case "int":
		return fmt.Sprintf("(i %d)", v.i)
	case "str":
		return "(s " + hx.HexS(v.s) + ")"
	}
	return "null"
}

// lit renders the value as a literal of the statement text.
func (v value) lit() string {
	switch v.kind {
	case "int":
		return strconv.FormatInt(v.i, 10)
	case "str":
		s := strings.ReplaceAll(v.s, "\\", "\\\\")
		s = strings.ReplaceAll(s, "'", "''")
		return "'" + s + "'"
	}
	return "NULL"
}

func (v value) goVal() interface{} {
	switch v.kind {
	case "int":
		return v.i
	case "str":
		return v.s
	}
	return nil
}

type atom struct {
	param int // -1: literal
	v     value
}

type pexpr struct {
	op    string // a col neg ar cmp and or not isnull in btw
	sub   string // arithmetic / comparison operator
	at    atom
	col   int
	args  []*pexpr
	items []atom
}

type stmt struct {
	kind string // select insert update delete
	proj []*pexpr
	w    *pexpr
	lim  *atom
	vals []atom
	col  int
	e    *pexpr
}

var colNames = []string{"id", "k", "s"}

// render modes
type mode struct {
	inline bool    // write bound values as literals
	sigma  []value // values per placeholder (inline mode)
	n      *int    // running placeholder counter (for :vN names nothing is needed: positional ?)
}

func (a atom) sexp() string {
	if a.param >= 0 {
		return fmt.Sprintf("(p %d)", a.param)
	}
	return "(lit " + a.v.sexp() + ")"
}

func (a atom) text(m mode) string {
	if a.param >= 0 {
		if m.inline {
			return m.sigma[a.param].lit()
		}
		return "?"
	}
	return a.v.lit()
}

func (e *pexpr) sexp() string {
	switch e.op {
	case "a":
		return "(a " + e.at.sexp() + ")"
	case "col":
		return fmt.Sprintf("(col %d)", e.col)
	case "neg", "not", "isnull":
		return "(" + e.op + " " + e.args[0].sexp() + ")"
	case "ar", "cmp":
		return fmt.Sprintf("(%s %s %s %s)", e.op, e.sub, e.args[0].sexp(), e.args[1].sexp())
	case "and", "or":
		return fmt.Sprintf("(%s %s %s)", e.op, e.args[0].sexp(), e.args[1].sexp())
	case "in":
		return fmt.Sprintf("(in %s %s)", e.args[0].sexp(), hx.ListOf(e.items, atom.sexp))
	case "btw":
		return fmt.Sprintf("(btw %s %s %s)", e.args[0].sexp(), e.args[1].sexp(), e.args[2].sexp())
	}
	panic("harness: bad pexpr " + e.op)
}

var arithSQL = map[string]string{"add": "+", "sub": "-", "mul": "*"}
var cmpSQL = map[string]string{"eq": "=", "ne": "<>", "lt": "<", "le": "<=", "gt": ">", "ge": ">=", "nseq": "<=>"}

func (e *pexpr) text(m mode) string {
	switch e.op {
	case "a":
		return e.at.text(m)
	case "col":
		return colNames[e.col]
	case "neg":
		return "(- " + e.args[0].text(m) + ")"
	case "not":
		return "(NOT " + e.args[0].text(m) + ")"
	case "isnull":
		return "(" + e.args[0].text(m) + " IS NULL)"
	case "ar":
		return "(" + e.args[0].text(m) + " " + arithSQL[e.sub] + " " + e.args[1].text(m) + ")"
	case "cmp":
		return "(" + e.args[0].text(m) + " " + cmpSQL[e.sub] + " " + e.args[1].text(m) + ")"
	case "and":
		return "(" + e.args[0].text(m) + " AND " + e.args[1].text(m) + ")"
	case "or":
		return "(" + e.args[0].text(m) + " OR " + e.args[1].text(m) + ")"
	case "in":
		parts := make([]string, len(e.items))
		for i, it := range e.items {
			parts[i] = it.text(m)
		}
		return "(" + e.args[0].text(m) + " IN (" + strings.Join(parts, ", ") + "))"
	case "btw":
		return "(" + e.args[0].text(m) + " BETWEEN " + e.args[1].text(m) + " AND " + e.args[2].text(m) + ")"
	}
	panic("harness: bad pexpr " + e.op)
}

func (s *stmt) sexp() string {
	switch s.kind {
	case "select":
		lim := "nolim"
		if s.lim != nil {
			lim = s.lim.sexp()
		}
		return fmt.Sprintf("(select %s %s %s)", hx.ListOf(s.proj, (*pexpr).sexp), s.w.sexp(), lim)
	case "insert":
		return "(insert " + hx.ListOf(s.vals, atom.sexp) + ")"
	case "update":
		return fmt.Sprintf("(update %d %s %s)", s.col, s.e.sexp(), s.w.sexp())
	case "delete":
		return "(delete " + s.w.sexp() + ")"
	}
	panic("harness: bad stmt")
}

func (s *stmt) text(m mode) string {
	switch s.kind {
	case "select":
		cols := []string{"id"}
		for _, p := range s.proj {
			cols = append(cols, p.text(m))
		}
		q := "SELECT " + strings.Join(cols, ", ") + " FROM t WHERE " + s.w.text(m) + " ORDER BY id"
		if s.lim != nil {
			q += " LIMIT " + s.lim.text(m)
		}
		return q
	case "insert":
		parts := make([]string, len(s.vals))
		for i, a := range s.vals {
			parts[i] = a.text(m)
		}
		return "INSERT INTO t VALUES (" + strings.Join(parts, ", ") + ")"
	case "update":
		return "UPDATE t SET " + colNames[s.col] + " = " + s.e.text(m) + " WHERE " + s.w.text(m)
	case "delete":
		return "DELETE FROM t WHERE " + s.w.text(m)
	}
	panic("harness: bad stmt")
}

// ---------------------------------------------------------------------------------------------
// Generator: type-directed, placeholders numbered in textual order (as the parser numbers `?`)

type gen struct {
	r     *hx.Rand
	next  int    // next placeholder number
	types []string // type of each placeholder: int | str | lim | key
}

func (g *gen) newParam(ty string) atom {
	a := atom{param: g.next}
	g.next++
	g.types = append(g.types, ty)
	return a
}

var strPool = []string{"a", "b", "ab", "", "it's", "back\\slash", "q\"uote", "é", "A", "x y"}

func (g *gen) intVal() value {
	if g.r.Chance(1, 10) {
		return vnull()
	}
	return vint(int64(g.r.Intn(12) - 3))
}
func (g *gen) strVal() value {
	if g.r.Chance(1, 10) {
		return vnull()
	}
	return vstr(hx.Pick(g.r, strPool))
}

func (g *gen) intAtom() atom {
	if g.r.Chance(1, 2) {
		return g.newParam("int")
	}
	return atom{param: -1, v: g.intVal()}
}
func (g *gen) strAtom() atom {
	if g.r.Chance(1, 2) {
		return g.newParam("str")
	}
	return atom{param: -1, v: g.strVal()}
}

func (g *gen) intExpr(d int) *pexpr {
	switch c := g.r.Intn(10); {
	case d <= 0 || c < 3:
		return &pexpr{op: "a", at: g.intAtom()}
	case c < 6:
		return &pexpr{op: "col", col: g.r.Intn(2)}
	case c < 7:
		return &pexpr{op: "neg", args: []*pexpr{g.intExpr(d - 1)}}
	default:
		a := g.intExpr(d - 1)
		b := g.intExpr(d - 1)
		return &pexpr{op: "ar", sub: hx.Pick(g.r, []string{"add", "sub", "mul"}), args: []*pexpr{a, b}}
	}
}

func (g *gen) strExpr() *pexpr {
	if g.r.Chance(1, 2) {
		return &pexpr{op: "col", col: 2}
	}
	return &pexpr{op: "a", at: g.strAtom()}
}

var cmpOps = []string{"eq", "ne", "lt", "le", "gt", "ge", "nseq"}

func (g *gen) pred(d int) *pexpr {
	switch c := g.r.Intn(12); {
	case d <= 0 || c < 4:
		if g.r.Chance(1, 3) {
			a := g.strExpr()
			b := g.strExpr()
			return &pexpr{op: "cmp", sub: hx.Pick(g.r, cmpOps), args: []*pexpr{a, b}}
		}
		a := g.intExpr(1)
		b := g.intExpr(1)
		return &pexpr{op: "cmp", sub: hx.Pick(g.r, cmpOps), args: []*pexpr{a, b}}
	case c < 6:
		a := g.pred(d - 1)
		b := g.pred(d - 1)
		return &pexpr{op: hx.Pick(g.r, []string{"and", "or"}), args: []*pexpr{a, b}}
	case c < 7:
		return &pexpr{op: "not", args: []*pexpr{g.pred(d - 1)}}
	case c < 8:
		if g.r.Bool() {
			return &pexpr{op: "isnull", args: []*pexpr{g.intExpr(1)}}
		}
		return &pexpr{op: "isnull", args: []*pexpr{g.strExpr()}}
	case c < 10:
		isStr := g.r.Chance(1, 3)
		var e *pexpr
		if isStr {
			e = g.strExpr()
		} else {
			e = g.intExpr(1)
		}
		n := 1 + g.r.Intn(3)
		items := make([]atom, n)
		for i := range items {
			if isStr {
				items[i] = g.strAtom()
			} else {
				items[i] = g.intAtom()
			}
		}
		return &pexpr{op: "in", args: []*pexpr{e}, items: items}
	default:
		e := g.intExpr(1)
		lo := g.intExpr(0)
		hi := g.intExpr(0)
		return &pexpr{op: "btw", args: []*pexpr{e, lo, hi}}
	}
}

// genStmt builds a statement; placeholders are created in the order they are printed.
func genStmt(r *hx.Rand) (*stmt, []string) {
	g := &gen{r: r}
	s := &stmt{}
	switch c := r.Intn(10); {
	case c < 5:
		s.kind = "select"
		for i := r.Intn(3); i > 0; i-- {
			switch r.Intn(3) {
			case 0:
				s.proj = append(s.proj, g.intExpr(2))
			case 1:
				s.proj = append(s.proj, g.strExpr())
			default:
				s.proj = append(s.proj, g.pred(1))
			}
		}
		s.w = g.pred(2)
		if r.Chance(1, 3) {
			var a atom
			if r.Bool() {
				a = g.newParam("lim")
			} else {
				a = atom{param: -1, v: vint(int64(r.Intn(4)))}
			}
			s.lim = &a
		}
	case c < 7:
		s.kind = "insert"
		var id atom
		if r.Chance(2, 3) {
			id = g.newParam("key")
		} else {
			id = atom{param: -1, v: vint(int64(r.Intn(14)))}
		}
		s.vals = []atom{id, g.intAtom(), g.strAtom()}
	case c < 9:
		s.kind = "update"
		if r.Bool() {
			s.col = 1
			s.e = g.intExpr(2)
		} else {
			s.col = 2
			s.e = g.strExpr()
		}
		s.w = g.pred(2)
	default:
		s.kind = "delete"
		s.w = g.pred(2)
	}
	return s, g.types
}

func genSigma(r *hx.Rand, tys []string) []value {
	g := &gen{r: r}
	out := make([]value, len(tys))
	for i, ty := range tys {
		switch ty {
		case "int":
			out[i] = g.intVal()
		case "str":
			out[i] = g.strVal()
		case "lim":
			out[i] = vint(int64(r.Intn(4)))
		case "key":
			out[i] = vint(int64(r.Intn(14)))
			if r.Chance(1, 25) {
				out[i] = vnull()
			}
		}
	}
	return out
}

// ---------------------------------------------------------------------------------------------
// Observations

type res struct {
	class    string // ok | err:… | crash | timeout
	rows     []string
	isOk     bool
	affected uint64
}

func (r res) obs() string {
	if r.class != "ok" {
		return r.class
	}
	if r.isOk {
		return fmt.Sprintf("ok %d", r.affected)
	}
	return strings.TrimSpace("rows " + strings.Join(r.rows, " "))
}

func cell(txt string, isNull bool) string {
	if isNull {
		return "null"
	}
	if _, err := strconv.ParseInt(txt, 10, 64); err == nil {
		return txt
	}
	switch txt { // boolean result columns
	case "true":
		return "1"
	case "false":
		return "0"
	}
	return hx.HexS(txt)
}

func classOfErr(err error) string {
	msg := err.Error()
	switch {
	case strings.Contains(msg, "bind variable not provided"):
		return "err:missing"
	case strings.Contains(msg, "invalid arguments. expected"):
		return "err:unused"
	}
	return fmt.Sprintf("err:%d", eng.Errno(err))
}

func fromEng(r *eng.Res) res {
	switch {
	case r.Panic != "":
		return res{class: "crash"}
	case r.Timeout:
		return res{class: "timeout"}
	case r.Err != nil:
		return res{class: classOfErr(r.Err)}
	}
	out := res{class: "ok", isOk: r.IsOk && len(r.Rows) == 0, affected: r.Affected}
	for i, row := range r.Rows {
		cells := make([]string, len(row))
		for j, c := range row {
			cells[j] = cell(c, r.Null[i][j])
		}
		out.rows = append(out.rows, "("+strings.Join(cells, " ")+")")
	}
	return out
}

// queryBound runs a statement through Engine.QueryWithBindings (what ComStmtExecute does).
func queryBound(e *eng.Eng, ctx *sql.Context, text string, bindings map[string]sqlparser.Expr) *eng.Res {
	done := make(chan *eng.Res, 1)
	go func() {
		r := &eng.Res{}
		defer func() {
			if p := recover(); p != nil {
				r.Panic = fmt.Sprint(p)
			}
			done <- r
		}()
		sch, it, _, err := e.E.QueryWithBindings(ctx, text, nil, bindings, nil)
		if err != nil {
			r.Err = err
			r.Errno = eng.Errno(err)
			return
		}
		r.Schema = sch
		for {
			row, err := it.Next(ctx)
			if err == io.EOF {
				break
			}
			if err != nil {
				r.Err = err
				r.Errno = eng.Errno(err)
				it.Close(ctx)
				return
			}
			if types.IsOkResult(row) {
				ok := types.GetOkResult(row)
				r.IsOk = true
				r.Affected = ok.RowsAffected
				continue
			}
			vals := make([]string, len(row))
			nulls := make([]bool, len(row))
			for i, v := range row {
				if i < len(sch) {
					vals[i], nulls[i] = eng.Text(ctx, sch[i].Type, v)
				} else {
					vals[i] = fmt.Sprintf("%v", v)
				}
			}
			r.Rows = append(r.Rows, vals)
			r.Null = append(r.Null, nulls)
		}
		if err := it.Close(ctx); err != nil {
			r.Err = err
			r.Errno = eng.Errno(err)
		}
	}()
	select {
	case r := <-done:
		return r
	case <-time.After(20 * time.Second):
		return &eng.Res{Timeout: true}
	}
}

// wireBindings converts Go values the way the server does for ComStmtExecute.
func wireBindings(sigma []value, present []bool) (map[string]sqlparser.Expr, error) {
	bvs := map[string]*querypb.BindVariable{}
	for i, v := range sigma {
		if present != nil && !present[i] {
			continue
		}
		bv, err := sqltypes.BuildBindVariable(v.goVal())
		if err != nil {
			return nil, err
		}
		bvs[fmt.Sprintf("v%d", i+1)] = bv
	}
	return server.VerifBindingsToExprs(bvs)
}

// ---------------------------------------------------------------------------------------------
// The four execution paths, each on its own engine (state = table t + the session's prepared cache)

type paths struct {
	a, b, d    *eng.Eng
	ca, cb, cd *sql.Context
	c          *eng.Eng
	srv        *server.Server
	db         *dsql.DB
	conn       *dsql.Conn
	stmts      map[string]*dsql.Stmt
	prepared   map[string]bool   // path (a): texts prepared in this session
	names      map[string]string // path (b): text -> PREPARE name
}

func newPaths() (*paths, error) {
	p := &paths{prepared: map[string]bool{}, names: map[string]string{}, stmts: map[string]*dsql.Stmt{}}
	p.a, p.b, p.d, p.c = eng.New("d"), eng.New("d"), eng.New("d"), eng.New("d")
	p.ca, p.cb, p.cd = p.a.Ctx(), p.b.Ctx(), p.d.Ctx()
	l, err := net.Listen("tcp", "127.0.0.1:0")
	if err != nil {
		return nil, err
	}
	port := l.Addr().(*net.TCPAddr).Port
	l.Close()
	cfg := server.Config{Protocol: "tcp", Address: fmt.Sprintf("127.0.0.1:%d", port)}
	srv, err := server.NewServer(cfg, p.c.E, sql.NewContext, memory.NewSessionBuilder(p.c.Pro), nil)
	if err != nil {
		return nil, err
	}
	p.srv = srv
	go srv.Start()
	dsn := fmt.Sprintf("root@tcp(127.0.0.1:%d)/d", port)
	for i := 0; i < 100; i++ {
		p.db, err = dsql.Open("mysql", dsn)
		if err == nil {
			if err = p.db.Ping(); err == nil {
				break
			}
		}
		time.Sleep(50 * time.Millisecond)
	}
	if err != nil {
		return nil, fmt.Errorf("cannot connect: %v", err)
	}
	p.conn, err = p.db.Conn(context.Background())
	if err != nil {
		return nil, err
	}
	return p, nil
}

func (p *paths) close() {
	for _, s := range p.stmts {
		s.Close()
	}
	if p.conn != nil {
		p.conn.Close()
	}
	if p.db != nil {
		p.db.Close()
	}
	if p.srv != nil {
		p.srv.Close()
	}
}

func wireErr(err error) string {
	if me, ok := err.(*gomysql.MySQLError); ok {
		switch {
		case strings.Contains(me.Message, "bind variable not provided"):
			return "err:missing"
		case strings.Contains(me.Message, "invalid arguments. expected"):
			return "err:unused"
		}
		return fmt.Sprintf("err:%d", me.Number)
	}
	return "err:client:" + hx.OneLine(err.Error())
}

func (p *paths) wireExecRaw(q string) error {
	ctx, cancel := context.WithTimeout(context.Background(), 30*time.Second)
	defer cancel()
	_, err := p.conn.ExecContext(ctx, q)
	return err
}

// reset recreates the table on every path (schema change between histories: the prepared
// statements of the session survive it).
func (p *paths) reset(rows [][3]value) error {
	stmts := []string{"DROP TABLE IF EXISTS t", "CREATE TABLE t (id INT PRIMARY KEY, k INT, s VARCHAR(20))"}
	if len(rows) > 0 {
		var vs []string
		for _, r := range rows {
			vs = append(vs, "("+r[0].lit()+","+r[1].lit()+","+r[2].lit()+")")
		}
		stmts = append(stmts, "INSERT INTO t VALUES "+strings.Join(vs, ","))
	}
	for _, q := range stmts {
		for _, pr := range []struct {
			e   *eng.Eng
			ctx *sql.Context
		}{{p.a, p.ca}, {p.b, p.cb}, {p.d, p.cd}} {
			r := pr.e.Query(pr.ctx, q)
			if r.Class() != "ok" {
				return fmt.Errorf("setup %q: %s %v", q, r.Class(), r.Err)
			}
		}
		if err := p.wireExecRaw(q); err != nil {
			return fmt.Errorf("wire setup %q: %v", q, err)
		}
	}
	return nil
}

func (p *paths) execA(text string, sigma []value, present []bool) res {
	if !p.prepared[text] {
		var perr error
		msg := hx.Safe(func() { _, perr = p.a.E.PrepareQuery(p.ca, text) })
		if msg != "" {
			return res{class: "crash"}
		}
		if perr != nil {
			return res{class: "prepare-" + classOfErr(perr)}
		}
		p.prepared[text] = true
	}
	b, err := wireBindings(sigma, present)
	if err != nil {
		panic("harness: cannot build bindings: " + err.Error())
	}
	return fromEng(queryBound(p.a, p.ca, text, b))
}

func (p *paths) execB(text string, sigma []value) res {
	name, ok := p.names[text]
	if !ok {
		name = fmt.Sprintf("s%d", len(p.names)+1)
		r := p.b.Query(p.cb, "PREPARE "+name+" FROM "+vstr(text).lit())
		if r.Class() != "ok" {
			return res{class: "prepare-" + r.Class()}
		}
		p.names[text] = name
	}
	var using []string
	for i, v := range sigma {
		r := p.b.Query(p.cb, fmt.Sprintf("SET @p%d = %s", i+1, v.lit()))
		if r.Class() != "ok" {
			return res{class: "set-" + r.Class()}
		}
		using = append(using, fmt.Sprintf("@p%d", i+1))
	}
	q := "EXECUTE " + name
	if len(using) > 0 {
		q += " USING " + strings.Join(using, ", ")
	}
	return fromEng(p.b.Query(p.cb, q))
}

func (p *paths) execC(text string, sigma []value, isSelect bool) res {
	ctx, cancel := context.WithTimeout(context.Background(), 30*time.Second)
	defer cancel()
	st, ok := p.stmts[text]
	if !ok {
		var err error
		st, err = p.conn.PrepareContext(ctx, text)
		if err != nil {
			return res{class: "prepare-" + wireErr(err)}
		}
		p.stmts[text] = st
	}
	args := make([]any, len(sigma))
	for i, v := range sigma {
		args[i] = v.goVal()
	}
	if !isSelect {
		r, err := st.ExecContext(ctx, args...)
		if err != nil {
			return res{class: wireErr(err)}
		}
		n, _ := r.RowsAffected()
		return res{class: "ok", isOk: true, affected: uint64(n)}
	}
	rs, err := st.QueryContext(ctx, args...)
	if err != nil {
		return res{class: wireErr(err)}
	}
	defer rs.Close()
	cols, _ := rs.Columns()
	out := res{class: "ok"}
	for rs.Next() {
		raw := make([]dsql.RawBytes, len(cols))
		ptrs := make([]any, len(cols))
		for i := range raw {
			ptrs[i] = &raw[i]
		}
		if err := rs.Scan(ptrs...); err != nil {
			return res{class: wireErr(err)}
		}
		cells := make([]string, len(cols))
		for i, b := range raw {
			cells[i] = cell(string(b), b == nil)
		}
		out.rows = append(out.rows, "("+strings.Join(cells, " ")+")")
	}
	if err := rs.Err(); err != nil {
		return res{class: wireErr(err)}
	}
	return out
}

func (p *paths) execD(text string) res { return fromEng(p.d.Query(p.cd, text)) }

// ---------------------------------------------------------------------------------------------

type step struct {
	st      *stmt
	sigma   []value
	present []bool // nil: all bindings given; otherwise which are given (arity-mismatch steps, path (a) only)
	extra   int    // extra unused bindings appended (path (a) only)
}

func (s step) sexp() string {
	parts := make([]string, 0, len(s.sigma)+s.extra)
	for i, v := range s.sigma {
		if s.present != nil && !s.present[i] {
			parts = append(parts, "none")
		} else {
			parts = append(parts, v.sexp())
		}
	}
	for i := 0; i < s.extra; i++ {
		parts = append(parts, "(i 7)")
	}
	return fmt.Sprintf("(st %s (%s))", s.st.sexp(), strings.Join(parts, " "))
}

func genRows(r *hx.Rand) [][3]value {
	n := r.Intn(7)
	var rows [][3]value
	id := int64(0)
	g := &gen{r: r}
	for i := 0; i < n; i++ {
		id += 1 + int64(r.Intn(3))
		rows = append(rows, [3]value{vint(id), g.intVal(), g.strVal()})
	}
	return rows
}

func extract(a hx.ExtractArgs) error {
	lf := hx.NewLeanFile("Gms.Generated.C12", "server/handler.go bindingsToExprs (run time)", "vitess parser (run time)",
		"sql/planbuilder/builder.go", "sql/planbuilder/orderby.go", "engine.go")
	// (1) AST literal class per wire type, through the server's own conversion, and the class the parser gives
	// to the literal text of the same value
	type sample struct {
		name string
		typ  querypb.Type
		val  string
		text string
	}
	samples := []sample{
		{"NULL_TYPE", querypb.Type_NULL_TYPE, "", "NULL"},
		{"INT8", querypb.Type_INT8, "-5", "-5"}, {"INT16", querypb.Type_INT16, "300", "300"}, {"INT24", querypb.Type_INT24, "70000", "70000"},
		{"INT32", querypb.Type_INT32, "-70000", "-70000"}, {"INT64", querypb.Type_INT64, "9223372036854775807", "9223372036854775807"},
		{"UINT8", querypb.Type_UINT8, "200", "200"}, {"UINT16", querypb.Type_UINT16, "60000", "60000"}, {"UINT24", querypb.Type_UINT24, "70000", "70000"},
		{"UINT32", querypb.Type_UINT32, "4000000000", "4000000000"}, {"UINT64", querypb.Type_UINT64, "18446744073709551615", "18446744073709551615"},
		{"YEAR", querypb.Type_YEAR, "2024", "2024"},
		{"FLOAT32", querypb.Type_FLOAT32, "1.5", "1.5e0"}, {"FLOAT64", querypb.Type_FLOAT64, "2.25", "2.25e0"},
		{"DECIMAL", querypb.Type_DECIMAL, "12.50", "12.50"},
		{"VARCHAR", querypb.Type_VARCHAR, "it's", "'it''s'"}, {"CHAR", querypb.Type_CHAR, "a", "'a'"}, {"TEXT", querypb.Type_TEXT, "t", "'t'"},
		{"VARBINARY", querypb.Type_VARBINARY, "b", "'b'"}, {"BINARY", querypb.Type_BINARY, "b", "'b'"}, {"BLOB", querypb.Type_BLOB, "b", "'b'"},
		{"DATE", querypb.Type_DATE, "2024-02-29", "'2024-02-29'"}, {"DATETIME", querypb.Type_DATETIME, "2024-02-29 01:02:03", "'2024-02-29 01:02:03'"},
		{"TIMESTAMP", querypb.Type_TIMESTAMP, "2024-02-29 01:02:03", "'2024-02-29 01:02:03'"}, {"TIME", querypb.Type_TIME, "01:02:03", "'01:02:03'"},
	}
	kindOf := func(e sqlparser.Expr) string {
		for {
			switch v := e.(type) {
			case *sqlparser.NullVal:
				return "NullVal"
			case *sqlparser.UnaryExpr:
				e = v.Expr // a negative literal is parsed as unary minus applied to the literal
				continue
			case *sqlparser.ParenExpr:
				e = v.Expr
				continue
			case *sqlparser.SQLVal:
				switch v.Type {
				case sqlparser.StrVal:
					return "StrVal"
				case sqlparser.IntVal:
					return "IntVal"
				case sqlparser.FloatVal:
					return "FloatVal"
				case sqlparser.HexNum:
					return "HexNum"
				case sqlparser.HexVal:
					return "HexVal"
				case sqlparser.ValArg:
					return "ValArg"
				case sqlparser.BitVal:
					return "BitVal"
				}
				return fmt.Sprintf("SQLVal:%d", v.Type)
			}
			return fmt.Sprintf("%T", e)
		}
	}
	var rows []string
	for _, s := range samples {
		bv := &querypb.BindVariable{Type: s.typ, Value: []byte(s.val)}
		m, err := server.VerifBindingsToExprs(map[string]*querypb.BindVariable{"v1": bv})
		wk := ""
		if err != nil {
			wk = "error"
		} else {
			wk = kindOf(m["v1"])
		}
		st, err := sqlparser.Parse("SELECT " + s.text)
		if err != nil {
			return fmt.Errorf("parse of literal %s: %v", s.text, err)
		}
		sel, ok := st.(*sqlparser.Select)
		if !ok || len(sel.SelectExprs) != 1 {
			return fmt.Errorf("unexpected parse of SELECT %s", s.text)
		}
		ae, ok := sel.SelectExprs[0].(*sqlparser.AliasedExpr)
		if !ok {
			return fmt.Errorf("unexpected select expression for %s", s.text)
		}
		rows = append(rows, fmt.Sprintf("  (%s, %s, %s)", hx.LeanString(s.name), hx.LeanString(wk), hx.LeanString(kindOf(ae.Expr))))
	}
	lf.Raw("def literalKinds : List (String × String × String) := [\n" + strings.Join(rows, ",\n") + "\n]\n")

	// (2) bookkeeping of the binder
	bsrc, err := hx.ParseSrc(a.Repo, "sql/planbuilder/builder.go")
	if err != nil {
		return err
	}
	gs, err := bsrc.Func("BindvarContext", "GetSubstitute")
	if err != nil {
		return err
	}
	marks := false
	ast.Inspect(gs.Body, func(n ast.Node) bool {
		if as, ok := n.(*ast.AssignStmt); ok && len(as.Lhs) == 1 {
			if strings.HasPrefix(bsrc.Text(as.Lhs[0]), "bv.used[") {
				marks = true
			}
		}
		return true
	})
	lf.DefBool("getSubstituteMarksUsed", marks)
	ub, err := bsrc.Func("BindvarContext", "UnusedBindings")
	if err != nil {
		return err
	}
	lf.DefString("unusedBindingsFastPath", firstIfCond(bsrc, ub))
	osrc, err := hx.ParseSrc(a.Repo, "sql/planbuilder/orderby.go")
	if err != nil {
		return err
	}
	nv, err := osrc.Func("Builder", "normalizeValArg")
	if err != nil {
		return err
	}
	lf.DefStringList("normalizeValArgErrors", stringLits(osrc, nv, "bind variable"))
	esrc, err := hx.ParseSrc(a.Repo, "engine.go")
	if err != nil {
		return err
	}
	qb, err := esrc.Func("Engine", "QueryWithBindings")
	if err != nil {
		return err
	}
	lf.DefStringList("queryWithBindingsErrors", stringLits(esrc, qb, "invalid arguments"))
	ps, err := esrc.Func("Engine", "preparedStatement")
	if err != nil {
		return err
	}
	var lookups []string
	ast.Inspect(ps.Body, func(n ast.Node) bool {
		if ce, ok := n.(*ast.CallExpr); ok {
			t := esrc.Text(ce)
			if strings.Contains(t, "GetPreparedQuery(") || strings.Contains(t, "SetBindings(") {
				lookups = append(lookups, t)
			}
		}
		return true
	})
	lf.DefStringList("preparedStatementCalls", lookups)
	// (3) what a bind may leave behind in the prepared statement's AST (facts2.go)
	if err := extractAstFacts(a.Repo, lf); err != nil {
		return err
	}
	return lf.Write(a.Out)
}

func firstIfCond(src *hx.Src, fd *ast.FuncDecl) string {
	out := ""
	ast.Inspect(fd.Body, func(n ast.Node) bool {
		if is, ok := n.(*ast.IfStmt); ok && out == "" {
			out = src.Text(is.Cond)
		}
		return true
	})
	return out
}

func stringLits(src *hx.Src, fd *ast.FuncDecl, containing string) []string {
	var out []string
	ast.Inspect(fd.Body, func(n ast.Node) bool {
		if bl, ok := n.(*ast.BasicLit); ok && strings.Contains(bl.Value, containing) {
			s, err := strconv.Unquote(bl.Value)
			if err == nil {
				out = append(out, s)
			}
		}
		return true
	})
	sort.Strings(out)
	return out
}

func run(a hx.RunArgs) error {
	out := hx.NewOut(a.OutDir)
	defer out.Close()
	out.Rule = "histories of 3-8 executions of parameterised SELECT/INSERT/UPDATE/DELETE statements (placeholders in projections, predicates, IN lists, " +
		"BETWEEN, LIMIT, VALUES, SET) with int / string (quotes, backslashes, UTF-8) / NULL values; statements are re-executed with other values and " +
		"after DML, and survive DROP/CREATE of the table between histories; each history runs on four paths (QueryWithBindings, PREPARE/EXECUTE, " +
		"go-sql-driver binary protocol, inlined text); a history is non-trivial when at least one re-execution of a statement text with " +
		"different values returns a different observation; shist: one fresh session per history, 2-5 statements whose meaning depends on the " +
		"catalog (INSERT without column list, SELECT *, NATURAL JOIN, INSERT with column list, named SELECT/UPDATE/DELETE) executed 6-14 " +
		"times with ALTER TABLE MODIFY COLUMN FIRST/AFTER, ADD COLUMN, DROP COLUMN in between, same four paths + the cached AST compared with a " +
		"fresh parse; non-trivial when an INSERT-without-list / SELECT * / NATURAL JOIN is re-executed after the physical column order " +
		"changed; twin: two statements whose texts differ only in the letter case of one string literal executed alternately in one " +
		"session; non-trivial when both ran at least twice"
	r := hx.NewRand(a.Seed).Fork()
	p, err := newPaths()
	if err != nil {
		return err
	}
	defer p.close()

	// ---- literal probes (model-free): one placeholder value of every kind through scalar templates, the four paths
	// must agree. The Lean model has no floats/decimals/bytes; these cases carry no model prediction ("probe").
	if err := p.reset([][3]value{{vint(1), vint(127), vstr("abc")}, {vint(2), vint(128), vstr("it's")}, {vint(3), vint(-129), vstr("")},
		{vint(4), vnull(), vnull()}, {vint(5), vint(0), vstr("5")}}); err != nil {
		return err
	}
	for _, pv := range probeValues() {
		for ti, tpl := range probeTemplates {
			if !tpl.accepts(pv.kind) {
				continue
			}
			text := tpl.text
			n := strings.Count(text, "?")
			oa := p.probeA(text, pv, n).obs()
			ob := p.probeB(text, pv, n).obs()
			oc := p.probeC(text, pv, n).obs()
			od := p.execD(strings.ReplaceAll(text, "?", pv.lit)).obs()
			id := out.Case(fmt.Sprintf("(probe %s %s %d)", pv.kind, hx.HexS(pv.lit), ti), "probe", oa != "rows" && !strings.HasPrefix(oa, "err"))
			out.Stat("probe")
			out.Stat("probe.kind." + pv.kind)
			if ob != oa || oc != oa || od != oa {
				out.OracleFail(id, probeRegion(pv, tpl.text, oa, ob, oc, od), fmt.Sprintf("%q with %s %s: bindings-API=%s | PREPARE/EXECUTE=%s | wire-binary=%s | inlined=%s",
					text, pv.kind, pv.lit, oa, ob, oc, od))
			}
		}
	}
	nHist := 120
	if a.Thorough {
		nHist = 6000
	}
	// a pool of statements shared by the histories of a run, so that prepared texts are re-executed
	// across histories (after the table was dropped and recreated)
	type pooled struct {
		st  *stmt
		tys []string
	}
	var pool []pooled
	for h := 0; h < nHist; h++ {
		rows := genRows(r)
		if err := p.reset(rows); err != nil {
			return err
		}
		nSteps := 3 + r.Intn(6)
		var steps []step
		for i := 0; i < nSteps; i++ {
			var ps pooled
			if len(pool) > 0 && r.Chance(1, 2) {
				ps = hx.Pick(r, pool)
			} else {
				st, tys := genStmt(r)
				ps = pooled{st, tys}
				if len(pool) < 400 {
					pool = append(pool, ps)
				}
			}
			sp := step{st: ps.st, sigma: genSigma(r, ps.tys)}
			if len(ps.tys) > 0 && r.Chance(1, 25) { // a binding is missing
				sp.present = make([]bool, len(ps.tys))
				for j := range sp.present {
					sp.present[j] = true
				}
				sp.present[r.Intn(len(ps.tys))] = false
			} else if r.Chance(1, 30) { // an unused binding is supplied
				sp.extra = 1
			}
			steps = append(steps, sp)
		}
		// final dump of the table: the effects of the history
		steps = append(steps, step{st: &stmt{kind: "select", proj: []*pexpr{{op: "col", col: 1}, {op: "col", col: 2}},
			w: &pexpr{op: "a", at: atom{param: -1, v: vint(1)}}}})

		var obsA []string
		seen := map[string]string{}
		nontrivial := false
		var fails []string
		for i, sp := range steps {
			text := sp.st.text(mode{})

			sigmaA := sp.sigma
			for j := 0; j < sp.extra; j++ {
				sigmaA = append(append([]value(nil), sigmaA...), vint(7))
			}
			ra := p.execA(text, sigmaA, extendPresent(sp.present, sp.extra, len(sp.sigma)))
			oa := ra.obs()
			obsA = append(obsA, oa)
			if prev, ok := seen[text]; ok && prev != oa {
				nontrivial = true
			}
			seen[text] = oa
			out.Stat("step." + sp.st.kind)
			if strings.HasPrefix(oa, "err") || oa == "crash" {
				out.Stat("outcome." + oa)
			}
			if sp.present != nil || sp.extra > 0 {
				out.Stat("step.arity-mismatch")
				// the other paths cannot express a missing / surplus binding the same way: they run the
				// step with the full bindings only if it has no effect … it has none on path (a) (error), so skip
				continue
			}
			ob := p.execB(text, sp.sigma).obs()
			oc := p.execC(text, sp.sigma, sp.st.kind == "select").obs()
			od := p.execD(sp.st.text(mode{inline: true, sigma: sp.sigma})).obs()
			if ob != oa || oc != oa || od != oa {
				fails = append(fails, fmt.Sprintf("step %d %q σ=%v: bindings-API=%s | PREPARE/EXECUTE=%s | wire-binary=%s | inlined=%s",
					i, text, sigmaStr(sp.sigma), oa, ob, oc, od))
			}
		}
		var ss []string
		for _, sp := range steps {
			ss = append(ss, sp.sexp())
		}
		var rs []string
		for _, rw := range rows {
			rs = append(rs, fmt.Sprintf("(row %s %s %s)", rw[0].sexp(), rw[1].sexp(), rw[2].sexp()))
		}
		id := out.Case(fmt.Sprintf("(hist (tbl %s) (steps %s))", strings.Join(rs, " "), strings.Join(ss, " ")), strings.Join(obsA, " ; "), nontrivial)
		out.Stat("hist")
		for _, f := range fails {
			out.OracleFail(id, "-", f)
		}
	}
	// ---- histories with schema changes between the executions of a prepared statement, and case-twin statement
	// pairs (schema.go); own generators, so that the stream above is the same sample as before
	nSchema, nTwin := 70, 40
	if a.Thorough {
		nSchema, nTwin = 3000, 1500
	}
	if err := runSchemaHistories(p, out, a.Seed, nSchema); err != nil {
		return err
	}
	if err := runTwinHistories(p, out, a.Seed, nTwin); err != nil {
		return err
	}
	return nil
}

func extendPresent(present []bool, extra, n int) []bool {
	if present == nil {
		return nil
	}
	out := append([]bool(nil), present...)
	for i := 0; i < extra; i++ {
		out = append(out, true)
	}
	_ = n
	return out
}

func sigmaStr(s []value) string {
	parts := make([]string, len(s))
	for i, v := range s {
		parts[i] = v.lit()
	}
	return "[" + strings.Join(parts, ", ") + "]"
}

// ---------------------------------------------------------------------------------------------
// literal probes

type probeValue struct {
	kind string      // int | uint | float | str | bytes | null
	goV  interface{} // value handed to BuildBindVariable / go-sql-driver
	lit  string      // the literal text of the value
}

func probeValues() []probeValue {
	var out []probeValue
	for _, i := range []int64{-9223372036854775808, -2147483649, -2147483648, -32769, -129, -128, -1, 0, 1, 127, 128, 255, 256, 32767, 32768, 65535, 65536,
		2147483647, 2147483648, 4294967295, 4294967296, 9223372036854775807} {
		out = append(out, probeValue{"int", i, strconv.FormatInt(i, 10)})
	}
	for _, u := range []uint64{9223372036854775808, 18446744073709551615} {
		out = append(out, probeValue{"uint", u, strconv.FormatUint(u, 10)})
	}
	for _, f := range []float64{1.5, -0.25, 3, 1e10, 0.1} {
		out = append(out, probeValue{"float", f, strconv.FormatFloat(f, 'e', -1, 64)})
	}
	for _, s := range []string{"", "abc", "it's", "back\\slash", "q\"uote", "é", "NULL", "5", "2024-02-29", "a b", "%_"} {
		out = append(out, probeValue{"str", s, vstr(s).lit()})
	}
	out = append(out, probeValue{"bytes", []byte{0x00, 0xff, 0x41}, "X'00FF41'"}, probeValue{"bytes", []byte{}, "X''"})
	out = append(out, probeValue{"null", nil, "NULL"})
	return out
}

type probeTemplate struct {
	text  string
	kinds string // space separated kinds it applies to
}

func (t probeTemplate) accepts(kind string) bool { return strings.Contains(" "+t.kinds+" ", " "+kind+" ") }

var probeTemplates = []probeTemplate{
	{"SELECT ?", "int uint float str bytes null"},
	{"SELECT ? IS NULL, ? <=> NULL", "int uint float str bytes null"},
	// no `- ?`: unary minus on a literal typed TINYINT/SMALLINT/INT UNSIGNED (128..255, 32768..65535, …) wraps — C25's listed
	// finding neg_unsigned_wraps — while the text `-128` is a negative literal; kept out of this property's envelope
	{"SELECT ? + 1, ? * 2, 0 - ?", "int float"},
	{"SELECT id FROM t WHERE k = ? ORDER BY id", "int uint float null"},
	{"SELECT id FROM t WHERE k < ? ORDER BY id", "int uint float"},
	{"SELECT id FROM t WHERE s = ? ORDER BY id", "str null"},
	{"SELECT id FROM t WHERE s >= ? ORDER BY id", "str"},
	{"SELECT CONCAT(?, 'x'), LENGTH(?), HEX(?)", "int str bytes null"},
	{"SELECT id, COALESCE(k, ?) FROM t WHERE id IN (?, 4) ORDER BY id", "int"},
	{"SELECT CASE WHEN ? = 127 THEN 'y' ELSE 'n' END", "int uint float str null"},
}

func probeRegion(pv probeValue, text, oa, ob, oc, od string) string { return "-" }

func (p *paths) probeA(text string, pv probeValue, n int) res {
	if !p.prepared[text] {
		var perr error
		msg := hx.Safe(func() { _, perr = p.a.E.PrepareQuery(p.ca, text) })
		if msg != "" {
			return res{class: "crash"}
		}
		if perr != nil {
			return res{class: "prepare-" + classOfErr(perr)}
		}
		p.prepared[text] = true
	}
	bvs := map[string]*querypb.BindVariable{}
	for i := 0; i < n; i++ {
		bv, err := sqltypes.BuildBindVariable(pv.goV)
		if err != nil {
			panic("harness: cannot build bind variable: " + err.Error())
		}
		bvs[fmt.Sprintf("v%d", i+1)] = bv
	}
	b, err := server.VerifBindingsToExprs(bvs)
	if err != nil {
		return res{class: "bind-err"}
	}
	return fromEng(queryBound(p.a, p.ca, text, b))
}

func (p *paths) probeB(text string, pv probeValue, n int) res {
	name, ok := p.names[text]
	if !ok {
		name = fmt.Sprintf("s%d", len(p.names)+1)
		r := p.b.Query(p.cb, "PREPARE "+name+" FROM "+vstr(text).lit())
		if r.Class() != "ok" {
			return res{class: "prepare-" + r.Class()}
		}
		p.names[text] = name
	}
	r := p.b.Query(p.cb, "SET @p1 = "+pv.lit)
	if r.Class() != "ok" {
		return res{class: "set-" + r.Class()}
	}
	using := make([]string, n)
	for i := range using {
		using[i] = "@p1"
	}
	return fromEng(p.b.Query(p.cb, "EXECUTE "+name+" USING "+strings.Join(using, ", ")))
}

func (p *paths) probeC(text string, pv probeValue, n int) res {
	ctx, cancel := context.WithTimeout(context.Background(), 30*time.Second)
	defer cancel()
	st, ok := p.stmts[text]
	if !ok {
		var err error
		st, err = p.conn.PrepareContext(ctx, text)
		if err != nil {
			return res{class: "prepare-" + wireErr(err)}
		}
		p.stmts[text] = st
	}
	args := make([]any, n)
	for i := range args {
		args[i] = pv.goV
	}
	rs, err := st.QueryContext(ctx, args...)
	if err != nil {
		return res{class: wireErr(err)}
	}
	defer rs.Close()
	cols, _ := rs.Columns()
	out := res{class: "ok"}
	for rs.Next() {
		raw := make([]dsql.RawBytes, len(cols))
		ptrs := make([]any, len(cols))
		for i := range raw {
			ptrs[i] = &raw[i]
		}
		if err := rs.Scan(ptrs...); err != nil {
			return res{class: wireErr(err)}
		}
		cells := make([]string, len(cols))
		for i, b := range raw {
			cells[i] = cell(string(b), b == nil)
		}
		out.rows = append(out.rows, "("+strings.Join(cells, " ")+")")
	}
	if err := rs.Err(); err != nil {
		return res{class: wireErr(err)}
	}
	return out
}
