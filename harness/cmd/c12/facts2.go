// Facts about what a bind leaves behind in the statement it was given (the cached AST of a prepared statement).
//
//	astWrites   (go/ast)  every assignment in sql/planbuilder whose left-hand side goes through a variable holding a node of
//	            the parsed statement (vitess AST): the places where binding can record something in the prepared
//	            statement. The Lean model's `bindAst` writes the USING list of a natural join and nothing else.
//	astStable   (run time) for one statement of every kind the planbuilder binds from a prepared AST: is the AST the session
//	            holds after PrepareQuery + one execution still the parse of the statement text?
package main

import (
	"fmt"
	"go/ast"
	"go/token"
	"path/filepath"
	"sort"
	"strings"

	"github.com/dolthub/go-mysql-server/verifharness/hx"
	"github.com/dolthub/go-mysql-server/verifharness/hx/eng"
)

const vitessAstPath = "github.com/dolthub/vitess/go/vt/sqlparser"

func rootIdent(e ast.Expr) *ast.Ident {
	for {
		switch v := e.(type) {
		case *ast.Ident:
			return v
		case *ast.SelectorExpr:
			e = v.X
		case *ast.IndexExpr:
			e = v.X
		case *ast.StarExpr:
			e = v.X
		case *ast.ParenExpr:
			e = v.X
		case *ast.TypeAssertExpr:
			e = v.X
		case *ast.UnaryExpr:
			e = v.X
		case *ast.SliceExpr:
			e = v.X
		default:
			return nil
		}
	}
}

// astWrites lists (function, left-hand side) of the writes into vitess AST nodes in sql/planbuilder.
func astWrites(repo string) ([][2]string, error) {
	files, err := filepath.Glob(filepath.Join(repo, "sql/planbuilder/*.go"))
	if err != nil {
		return nil, err
	}
	if len(files) < 10 {
		return nil, fmt.Errorf("sql/planbuilder: only %d Go files found", len(files))
	}
	seen := map[[2]string]bool{}
	nFuncs := 0
	for _, f := range files {
		if strings.HasSuffix(f, "_test.go") {
			continue
		}
		rel, _ := filepath.Rel(repo, f)
		src, err := hx.ParseSrc(repo, rel)
		if err != nil {
			return nil, err
		}
		alias := ""
		for _, im := range src.File.Imports {
			if strings.Trim(im.Path.Value, "\"") == vitessAstPath {
				alias = "sqlparser"
				if im.Name != nil {
					alias = im.Name.Name
				}
			}
		}
		if alias == "" {
			continue
		}
		isAstType := func(e ast.Expr) bool { return e != nil && strings.Contains(src.Text(e), alias+".") }
		for _, d := range src.File.Decls {
			fd, ok := d.(*ast.FuncDecl)
			if !ok || fd.Body == nil {
				continue
			}
			nFuncs++
			typed := map[string]bool{}
			addFields := func(fl *ast.FieldList) {
				if fl == nil {
					return
				}
				for _, fld := range fl.List {
					if isAstType(fld.Type) {
						for _, n := range fld.Names {
							typed[n.Name] = true
						}
					}
				}
			}
			addFields(fd.Type.Params)
			isTyped := func(e ast.Expr) bool {
				id := rootIdent(e)
				return id != nil && typed[id.Name]
			}
			mark := func(lhs ast.Expr) bool {
				if id, ok := lhs.(*ast.Ident); ok && id.Name != "_" && !typed[id.Name] {
					typed[id.Name] = true
					return true
				}
				return false
			}
			for changed := true; changed; {
				changed = false
				ast.Inspect(fd.Body, func(n ast.Node) bool {
					switch v := n.(type) {
					case *ast.FuncLit:
						before := len(typed)
						addFields(v.Type.Params)
						if len(typed) != before {
							changed = true
						}
					case *ast.TypeSwitchStmt:
						as, ok := v.Assign.(*ast.AssignStmt)
						if !ok || len(as.Lhs) != 1 || len(as.Rhs) != 1 {
							break
						}
						hit := isTyped(as.Rhs[0])
						for _, cc := range v.Body.List {
							for _, t := range cc.(*ast.CaseClause).List {
								if isAstType(t) {
									hit = true
								}
							}
						}
						if hit && mark(as.Lhs[0]) {
							changed = true
						}
					case *ast.AssignStmt:
						for i, lhs := range v.Lhs {
							var rhs ast.Expr
							switch {
							case len(v.Rhs) == len(v.Lhs):
								rhs = v.Rhs[i]
							case len(v.Rhs) == 1 && i == 0:
								rhs = v.Rhs[0]
							}
							if rhs == nil {
								continue
							}
							ta, isTA := rhs.(*ast.TypeAssertExpr)
							if _, isCall := rhs.(*ast.CallExpr); isCall {
								continue
							}
							if (isTA && ta.Type != nil && isAstType(ta.Type)) || isTyped(rhs) {
								if mark(lhs) {
									changed = true
								}
							}
						}
					case *ast.RangeStmt:
						if isTyped(v.X) && v.Value != nil && mark(v.Value) {
							changed = true
						}
					}
					return true
				})
			}
			record := func(lhs ast.Expr) {
				if _, plain := lhs.(*ast.Ident); plain {
					return
				}
				if isTyped(lhs) {
					seen[[2]string{fd.Name.Name, src.Text(lhs)}] = true
				}
			}
			ast.Inspect(fd.Body, func(n ast.Node) bool {
				switch v := n.(type) {
				case *ast.AssignStmt:
					if v.Tok != token.DEFINE {
						for _, lhs := range v.Lhs {
							record(lhs)
						}
					}
				case *ast.IncDecStmt:
					record(v.X)
				}
				return true
			})
		}
	}
	if nFuncs < 100 {
		return nil, fmt.Errorf("sql/planbuilder: only %d functions with access to the statement AST found", nFuncs)
	}
	var out [][2]string
	for k := range seen {
		out = append(out, k)
	}
	sort.Slice(out, func(i, j int) bool { return out[i][0]+"\x00"+out[i][1] < out[j][0]+"\x00"+out[j][1] })
	return out, nil
}

// statements of the kinds that are bound from a prepared AST; `?` are bound to 11, 12, 13 …
var astStableCorpus = [][2]string{
	{"insert_implicit_columns", "INSERT INTO pt VALUES (?, ?, ?)"},
	{"insert_explicit_columns", "INSERT INTO pt (id, k, s) VALUES (?, ?, ?)"},
	{"insert_multi_row", "INSERT INTO pt VALUES (?, ?, 'a'), (?, 5, 'b')"},
	{"insert_select", "INSERT INTO pt SELECT id + ?, k, s FROM pu"},
	{"insert_on_duplicate_key", "INSERT INTO pt VALUES (?, ?, 'x') ON DUPLICATE KEY UPDATE k = VALUES(k) + ?"},
	{"insert_set", "INSERT INTO pt SET id = ?, k = ?"},
	{"replace_implicit_columns", "REPLACE INTO pt VALUES (?, ?, ?)"},
	{"insert_ignore", "INSERT IGNORE INTO pt VALUES (?, ?, ?)"},
	{"select_star", "SELECT * FROM pt WHERE id > ?"},
	{"select_table_star_join", "SELECT pt.*, pu.s FROM pt JOIN pu ON pt.id = pu.id WHERE pu.k > ?"},
	{"select_using_join", "SELECT * FROM pt JOIN pu USING (id) WHERE pt.k > ?"},
	{"natural_join", "SELECT * FROM pt NATURAL JOIN pu WHERE id > ?"},
	{"natural_left_join", "SELECT * FROM pt NATURAL LEFT JOIN pu WHERE id > ?"},
	{"select_group_order_limit", "SELECT k, COUNT(*) FROM pt WHERE id > ? GROUP BY k HAVING COUNT(*) >= ? ORDER BY 1 LIMIT ?"},
	{"select_order_by_ordinal", "SELECT s, k FROM pt WHERE id < ? ORDER BY 2, 1"},
	{"select_in_subquery", "SELECT id FROM pt WHERE k IN (SELECT k FROM pu WHERE id > ?)"},
	{"select_derived_table", "SELECT x.id FROM (SELECT * FROM pt WHERE k > ?) x ORDER BY 1"},
	{"select_cte", "WITH c AS (SELECT * FROM pt WHERE id > ?) SELECT * FROM c"},
	{"select_union", "SELECT id FROM pt WHERE k > ? UNION SELECT id FROM pu WHERE k > ?"},
	{"select_window", "SELECT id, ROW_NUMBER() OVER (PARTITION BY k ORDER BY id) FROM pt WHERE id > ?"},
	{"select_case_between_in", "SELECT CASE WHEN k BETWEEN ? AND ? THEN 'y' ELSE s END FROM pt WHERE id IN (?, ?)"},
	{"update_where", "UPDATE pt SET k = k + ? WHERE id = ?"},
	{"update_join", "UPDATE pt JOIN pu ON pt.id = pu.id SET pt.k = ? WHERE pu.k > ?"},
	{"delete_where", "DELETE FROM pt WHERE id = ? OR k > ?"},
	{"delete_order_limit", "DELETE FROM pt WHERE id > ? ORDER BY id LIMIT 1"},
	{"select_introducer_collate", "SELECT id FROM pt WHERE s = _utf8mb4'a' COLLATE utf8mb4_general_ci AND id < ?"},
}

// astStableTable runs the corpus on a fresh engine: (statement kind, cached AST still equals the parse of the text,
// outcome class of the execution).
func astStableTable() ([][3]string, error) {
	var out [][3]string
	for _, c := range astStableCorpus {
		e := eng.New("d")
		ctx := e.Ctx()
		for _, q := range []string{"CREATE TABLE pt (id INT PRIMARY KEY, k INT, s VARCHAR(20))", "CREATE TABLE pu (id INT PRIMARY KEY, k INT, s VARCHAR(20))",
			"INSERT INTO pt VALUES (1, 10, 'a'), (2, 20, 'b'), (3, 20, 'c')", "INSERT INTO pu VALUES (1, 10, 'a'), (2, 21, 'b'), (4, 20, 'z')"} {
			if r := e.Query(ctx, q); r.Class() != "ok" {
				return nil, fmt.Errorf("astStable setup %q: %s %v", q, r.Class(), r.Err)
			}
		}
		text := c[1]
		var perr error
		if msg := hx.Safe(func() { _, perr = e.E.PrepareQuery(ctx, text) }); msg != "" || perr != nil {
			return nil, fmt.Errorf("astStable: PrepareQuery(%q): %v %s", text, perr, msg)
		}
		n := strings.Count(text, "?")
		sigma := make([]value, n)
		for i := range sigma {
			sigma[i] = vint(int64(i + 11))
		}
		b, err := wireBindings(sigma, nil)
		if err != nil {
			return nil, err
		}
		class := fromEng(queryBound(e, ctx, text, b)).class
		drift, cached, _ := astDrift(ctx, text, text)
		if cached == "" {
			return nil, fmt.Errorf("astStable: %q is not in the session's statement cache after PrepareQuery", text)
		}
		// a second execution must see the same AST as the first left behind
		fromEng(queryBound(e, ctx, text, b))
		drift2, _, _ := astDrift(ctx, text, text)
		out = append(out, [3]string{c[0], fmt.Sprint(!drift && !drift2), strings.SplitN(class, ":", 2)[0]})
	}
	return out, nil
}

func extractAstFacts(repo string, lf *hx.LeanFile) error {
	ws, err := astWrites(repo)
	if err != nil {
		return err
	}
	var rows []string
	for _, w := range ws {
		rows = append(rows, fmt.Sprintf("  (%s, %s)", hx.LeanString(w[0]), hx.LeanString(w[1])))
	}
	lf.Comment("assignments in sql/planbuilder that write through a variable holding a node of the parsed statement: (function, left-hand side)")
	lf.Raw("def astWrites : List (String × String) := [\n" + strings.Join(rows, ",\n") + "\n]\n")
	tb, err := astStableTable()
	if err != nil {
		return err
	}
	rows = nil
	for _, t := range tb {
		rows = append(rows, fmt.Sprintf("  (%s, %s, %s)", hx.LeanString(t[0]), t[1], hx.LeanString(t[2])))
	}
	lf.Comment("run time: (statement kind, the AST cached in the session after PrepareQuery + two executions is still the parse of the text, outcome class)")
	lf.Raw("def astStable : List (String × Bool × String) := [\n" + strings.Join(rows, ",\n") + "\n]\n")
	return nil
}
