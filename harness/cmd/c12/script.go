// `c12 script < file` — replay helper: runs a hand-written history through the four execution paths and prints the
// observation of each path (used to replay witnesses and to explore the engine; not part of a check run).
//
//	# comment
//	Q <sql>                         plain statement text on every path (DDL / set-up)
//	X <sql with ?> ;; v1 ;; v2 …    one execution of the prepared statement with the values v (NULL | integer | 'string')
package main

import (
	"bufio"
	"fmt"
	"os"
	"strconv"
	"strings"
)

func parseScriptValue(s string) (value, error) {
	s = strings.TrimSpace(s)
	switch {
	case strings.EqualFold(s, "NULL"):
		return vnull(), nil
	case len(s) >= 2 && s[0] == '\'' && s[len(s)-1] == '\'':
		return vstr(strings.ReplaceAll(s[1:len(s)-1], "''", "'")), nil
	}
	i, err := strconv.ParseInt(s, 10, 64)
	if err != nil {
		return value{}, fmt.Errorf("bad value %q", s)
	}
	return vint(i), nil
}

// inlineText writes the values into the `?` positions (outside string literals).
func inlineText(text string, sigma []value) string {
	var sb strings.Builder
	k := 0
	inStr := false
	for i := 0; i < len(text); i++ {
		c := text[i]
		if c == '\'' {
			inStr = !inStr
		}
		if c == '?' && !inStr && k < len(sigma) {
			sb.WriteString(sigma[k].lit())
			k++
			continue
		}
		sb.WriteByte(c)
	}
	return sb.String()
}

func scriptMain() int {
	p, err := newPaths()
	if err != nil {
		fmt.Fprintln(os.Stderr, "c12 script:", err)
		return 2
	}
	defer p.close()
	sc := bufio.NewScanner(os.Stdin)
	sc.Buffer(make([]byte, 1<<20), 1<<20)
	bad := 0
	for sc.Scan() {
		line := strings.TrimSpace(sc.Text())
		switch {
		case line == "" || strings.HasPrefix(line, "#"):
			continue
		case strings.HasPrefix(line, "Q "):
			q := strings.TrimSpace(line[2:])
			oa := fromEng(p.a.Query(p.ca, q)).obs()
			ob := fromEng(p.b.Query(p.cb, q)).obs()
			od := fromEng(p.d.Query(p.cd, q)).obs()
			oc := "ok"
			if err := p.wireExecRaw(q); err != nil {
				oc = wireErr(err)
			}
			fmt.Printf("Q %s\n   a=%s | b=%s | c=%s | d=%s\n", q, oa, ob, oc, od)
		case strings.HasPrefix(line, "X "):
			parts := strings.Split(line[2:], ";;")
			text := strings.TrimSpace(parts[0])
			var sigma []value
			for _, s := range parts[1:] {
				v, err := parseScriptValue(s)
				if err != nil {
					fmt.Fprintln(os.Stderr, "c12 script:", err)
					return 2
				}
				sigma = append(sigma, v)
			}
			isSel := strings.HasPrefix(strings.ToUpper(text), "SELECT")
			oa := p.execA(text, sigma, nil).obs()
			ob := p.execB(text, sigma).obs()
			oc := p.execC(text, sigma, isSel).obs()
			od := p.execD(inlineText(text, sigma)).obs()
			mark := ""
			if oa != od || ob != od || oc != od {
				mark = "   <-- DIFFER"
				bad++
			}
			fmt.Printf("X %s σ=%s%s\n   bindings-API=%s\n   PREPARE/EXECUTE=%s\n   wire-binary=%s\n   inlined=%s\n", text, sigmaStr(sigma), mark, oa, ob, oc, od)
		default:
			fmt.Fprintf(os.Stderr, "c12 script: bad line %q\n", line)
			return 2
		}
	}
	if bad > 0 {
		fmt.Printf("%d prepared executions differed from the inlined statement text\n", bad)
		return 1
	}
	return 0
}
