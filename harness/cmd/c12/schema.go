// Schema-change histories and case-twin histories (mirror of Gms/Model/PreparedSchema.lean).
//
// Class covered: state that one bind of a prepared statement leaves behind — in the cached statement AST or in the
// session's statement cache — and that a later execution picks up although the catalog (or the statement) is another one
// by then. The streams of main.go never change the schema between two executions of a statement and never hold two
// statements whose texts collide under a coarser key, so nothing of that class could surface there.
//
//   - shist: one fresh session per history; statements whose meaning depends on the catalog (INSERT without column
//     list, SELECT *, NATURAL JOIN, INSERT with explicit list, plus the named SELECT/UPDATE/DELETE of main.go) are
//     executed, the table is altered (MODIFY COLUMN … FIRST/AFTER, ADD COLUMN, DROP COLUMN), and the same prepared
//     statements are executed again; four paths as in main.go; the Lean driver predicts path (a) with `implAll`
//     (cached ASTs, natural joins keep the USING list of their first bind — listed finding) and the inlined text with
//     `specAll`. After every history the ASTs cached in the sessions of paths (a) and (b) are compared with a fresh parse
//     of their texts (`sast` case; model: `driftedStmts (finalCacheG bindAst …)`, natural joins only — theorems
//     bind_eq_self, no_drift_without_natJoin); this is Impl-model correspondence, not a Spec.
//   - twin: histories (old `hist` format) over pairs of statements whose texts differ only in the letter case of one
//     string literal, executed A, B, A, B … in one session (cache key collisions).
package main

import (
	"context"
	dsql "database/sql"
	"fmt"
	"strings"
	"unicode"

	"github.com/dolthub/go-mysql-server/sql"
	"github.com/dolthub/go-mysql-server/verifharness/hx"
	"github.com/dolthub/vitess/go/vt/sqlparser"
)

const regionNatJoin = "natural_join_using_memoised"

var colNames4 = []string{"id", "k", "s", "c"}

type sstmt struct {
	kind string // plain insall inscols star nj
	st   *stmt  // plain
	vals []atom // insall (all placeholders) / inscols
	cols []int  // inscols
	w    *pexpr // star / nj
	tys  []string
}

func (s *sstmt) sexp() string {
	switch s.kind {
	case "plain":
		return "(plain " + s.st.sexp() + ")"
	case "insall":
		return "(insall " + hx.ListOf(s.vals, atom.sexp) + ")"
	case "inscols":
		return "(inscols " + hx.ListOf(s.cols, func(c int) string { return fmt.Sprint(c) }) + " " + hx.ListOf(s.vals, atom.sexp) + ")"
	case "star":
		return "(star " + s.w.sexp() + ")"
	case "nj":
		return "(nj " + s.w.sexp() + ")"
	}
	panic("harness: bad sstmt")
}

func atomsText(as []atom, m mode) string {
	parts := make([]string, len(as))
	for i, a := range as {
		parts[i] = a.text(m)
	}
	return strings.Join(parts, ", ")
}

func (s *sstmt) text(m mode) string {
	switch s.kind {
	case "plain":
		return s.st.text(m)
	case "insall":
		return "INSERT INTO t VALUES (" + atomsText(s.vals, m) + ")"
	case "inscols":
		names := make([]string, len(s.cols))
		for i, c := range s.cols {
			names[i] = colNames4[c]
		}
		return "INSERT INTO t (" + strings.Join(names, ", ") + ") VALUES (" + atomsText(s.vals, m) + ")"
	case "star":
		return "SELECT * FROM t WHERE " + s.w.text(m) + " ORDER BY id"
	case "nj":
		return "SELECT * FROM t NATURAL JOIN u WHERE " + s.w.text(m) + " ORDER BY id, w"
	}
	panic("harness: bad sstmt")
}

func (s *sstmt) isSelect() bool {
	return s.kind == "star" || s.kind == "nj" || (s.kind == "plain" && s.st.kind == "select")
}

// tyOfCol: the placeholder type that fits a column of t
func tyOfCol(c int) string {
	switch c {
	case 0:
		return "key"
	case 2:
		return "str"
	}
	return "int"
}

func genSStmt(r *hx.Rand) *sstmt {
	switch c := r.Intn(20); {
	case c < 6:
		// INSERT without column list: every value is a placeholder (its type is chosen at execution time from the
		// physical column order of that moment, so that the unchanged tree never sees an ill-typed value)
		n := 3
		if r.Chance(1, 4) {
			n = 4
		}
		g := &gen{r: r}
		s := &sstmt{kind: "insall"}
		for i := 0; i < n; i++ {
			s.vals = append(s.vals, g.newParam("late"))
		}
		s.tys = g.types
		return s
	case c < 8:
		cols := []int{0}
		for _, c := range []int{1, 2, 3} {
			if r.Chance(1, 2) {
				cols = append(cols, c)
			}
		}
		for i := len(cols) - 1; i > 0; i-- {
			j := r.Intn(i + 1)
			cols[i], cols[j] = cols[j], cols[i]
		}
		g := &gen{r: r}
		s := &sstmt{kind: "inscols", cols: cols}
		for _, c := range cols {
			switch {
			case c == 0 && r.Chance(2, 3):
				s.vals = append(s.vals, g.newParam("key"))
			case c == 0:
				s.vals = append(s.vals, atom{param: -1, v: vint(int64(r.Intn(14)))})
			case c == 2:
				s.vals = append(s.vals, g.strAtom())
			default:
				s.vals = append(s.vals, g.intAtom())
			}
		}
		s.tys = g.types
		return s
	case c < 12:
		g := &gen{r: r}
		s := &sstmt{kind: "star", w: g.pred(1 + r.Intn(2))}
		s.tys = g.types
		return s
	case c < 15:
		g := &gen{r: r}
		s := &sstmt{kind: "nj", w: g.pred(1 + r.Intn(2))}
		s.tys = g.types
		return s
	}
	for {
		st, tys := genStmt(r)
		if st.kind != "insert" {
			return &sstmt{kind: "plain", st: st, tys: tys}
		}
	}
}

type ddl struct {
	op   string // first after add drop
	c, a int
	pos  string // add: last first after
}

func (d ddl) sexp() string {
	switch d.op {
	case "first":
		return fmt.Sprintf("(ddl first %d)", d.c)
	case "after":
		return fmt.Sprintf("(ddl after %d %d)", d.c, d.a)
	case "drop":
		return "(ddl drop)"
	}
	if d.pos == "after" {
		return fmt.Sprintf("(ddl add after %d)", d.a)
	}
	return "(ddl add " + d.pos + ")"
}

var colDefs = []string{"id INT NOT NULL", "k INT", "s VARCHAR(20)", "c INT DEFAULT 7"}

func (d ddl) text() string {
	switch d.op {
	case "first":
		return "ALTER TABLE t MODIFY COLUMN " + colDefs[d.c] + " FIRST"
	case "after":
		return "ALTER TABLE t MODIFY COLUMN " + colDefs[d.c] + " AFTER " + colNames4[d.a]
	case "drop":
		return "ALTER TABLE t DROP COLUMN c"
	}
	switch d.pos {
	case "first":
		return "ALTER TABLE t ADD COLUMN " + colDefs[3] + " FIRST"
	case "after":
		return "ALTER TABLE t ADD COLUMN " + colDefs[3] + " AFTER " + colNames4[d.a]
	}
	return "ALTER TABLE t ADD COLUMN " + colDefs[3]
}

func contains(xs []int, x int) bool {
	for _, y := range xs {
		if y == x {
			return true
		}
	}
	return false
}

func erase(xs []int, x int) []int {
	var out []int
	for _, y := range xs {
		if y != x {
			out = append(out, y)
		}
	}
	return out
}

func insertAfterInt(xs []int, c, a int) []int {
	var out []int
	done := false
	for _, y := range xs {
		out = append(out, y)
		if y == a && !done {
			out = append(out, c)
			done = true
		}
	}
	if !done {
		out = append(out, c)
	}
	return out
}

// apply mirrors Ddl.apply on the physical column order (only valid changes are generated)
func (d ddl) apply(ord []int) []int {
	switch d.op {
	case "first":
		return append([]int{d.c}, erase(ord, d.c)...)
	case "after":
		return insertAfterInt(erase(ord, d.c), d.c, d.a)
	case "drop":
		return erase(ord, 3)
	}
	switch d.pos {
	case "first":
		return append([]int{3}, ord...)
	case "after":
		return insertAfterInt(ord, 3, d.a)
	}
	return append(append([]int(nil), ord...), 3)
}

func genDdl(r *hx.Rand, ord []int) ddl {
	hasC := contains(ord, 3)
	switch c := r.Intn(10); {
	case c < 4: // add / drop c
		if hasC {
			return ddl{op: "drop"}
		}
		switch r.Intn(3) {
		case 0:
			return ddl{op: "add", pos: "last"}
		case 1:
			return ddl{op: "add", pos: "first"}
		}
		return ddl{op: "add", pos: "after", a: hx.Pick(r, ord)}
	case c < 7:
		movable := erase(ord, 0)
		return ddl{op: "first", c: hx.Pick(r, movable)}
	}
	movable := erase(ord, 0)
	c := hx.Pick(r, movable)
	return ddl{op: "after", c: c, a: hx.Pick(r, erase(ord, c))}
}

func commonCols(ord []int) string {
	var parts []string
	for _, c := range ord {
		if c == 1 || c == 3 {
			parts = append(parts, colNames4[c])
		}
	}
	return strings.Join(parts, ",")
}

// session: the four paths on fresh sessions of the run's engines (own prepared-statement caches)
func (p *paths) session() (*paths, error) {
	q := &paths{a: p.a, b: p.b, d: p.d, c: p.c, srv: p.srv, db: p.db, prepared: map[string]bool{}, names: map[string]string{},
		stmts: map[string]*dsql.Stmt{}}
	q.ca, q.cb, q.cd = p.a.Ctx(), p.b.Ctx(), p.d.Ctx()
	conn, err := p.db.Conn(context.Background())
	if err != nil {
		return nil, err
	}
	q.conn = conn
	return q, nil
}

func (q *paths) closeSession() {
	for _, s := range q.stmts {
		s.Close()
	}
	if q.conn != nil {
		q.conn.Close()
	}
}

// everywhere runs a plain statement on the four paths; "" when all succeeded
func (q *paths) everywhere(text string) string {
	if r := q.a.Query(q.ca, text); r.Class() != "ok" {
		return fmt.Sprintf("bindings-API session: %s %v", r.Class(), r.Err)
	}
	if r := q.b.Query(q.cb, text); r.Class() != "ok" {
		return fmt.Sprintf("PREPARE/EXECUTE session: %s %v", r.Class(), r.Err)
	}
	if r := q.d.Query(q.cd, text); r.Class() != "ok" {
		return fmt.Sprintf("inlined session: %s %v", r.Class(), r.Err)
	}
	if err := q.wireExecRaw(text); err != nil {
		return "wire session: " + wireErr(err)
	}
	return ""
}

func noPrep(obs string) string { return strings.TrimPrefix(obs, "prepare-") }

// astDrift compares the AST the session holds under `key` with a fresh parse of the statement text
func astDrift(ctx *sql.Context, key, text string) (drift bool, cached, fresh string) {
	ast, ok := ctx.Session.GetPreparedQuery(key)
	if !ok {
		return false, "", ""
	}
	st, err := sqlparser.Parse(text)
	if err != nil {
		return false, "", ""
	}
	cached, fresh = sqlparser.String(ast), sqlparser.String(st)
	return cached != fresh, cached, fresh
}

func genURows(r *hx.Rand, trows [][3]value) [][3]value {
	n := r.Intn(5)
	var out [][3]value
	for i := 0; i < n; i++ {
		var k value
		switch {
		case len(trows) > 0 && r.Chance(3, 4):
			k = hx.Pick(r, trows)[1]
		default:
			k = vint(int64(r.Intn(12) - 3))
		}
		c := vint(7)
		switch r.Intn(6) {
		case 0:
			c = vint(8)
		case 1:
			c = vnull()
		}
		out = append(out, [3]value{k, c, vint(int64(100 * (i + 1)))})
	}
	return out
}

func rowsSQL(rows [][3]value) string {
	var vs []string
	for _, r := range rows {
		vs = append(vs, "("+r[0].lit()+","+r[1].lit()+","+r[2].lit()+")")
	}
	return strings.Join(vs, ",")
}

func rowsSexp(rows [][3]value) string {
	var rs []string
	for _, rw := range rows {
		rs = append(rs, fmt.Sprintf("(row %s %s %s)", rw[0].sexp(), rw[1].sexp(), rw[2].sexp()))
	}
	return strings.Join(rs, " ")
}

type sstep struct {
	isDdl   bool
	d       ddl
	i       int
	sigma   []value
	present []bool
	extra   int
}

func (s sstep) sexp() string {
	if s.isDdl {
		return s.d.sexp()
	}
	parts := make([]string, 0, len(s.sigma)+s.extra)
	for j, v := range s.sigma {
		if s.present != nil && !s.present[j] {
			parts = append(parts, "none")
		} else {
			parts = append(parts, v.sexp())
		}
	}
	for j := 0; j < s.extra; j++ {
		parts = append(parts, "(i 7)")
	}
	return fmt.Sprintf("(x %d (%s))", s.i, strings.Join(parts, " "))
}

// scripted histories run before the random ones (witness of the listed finding, the README scenario of the seeded
// change's class, a re-order only history)
type scripted struct {
	pool  []*sstmt
	steps []string // "x<i>" or a ddl: first:<c> after:<c>:<a> add:last add:first add:after:<a> drop
}

func scriptedHistories() []scripted {
	gt0 := func() (*pexpr, []string) {
		g := &gen{}
		p := g.newParam("int")
		return &pexpr{op: "cmp", sub: "gt", args: []*pexpr{{op: "col", col: 0}, {op: "a", at: p}}}, g.types
	}
	mk := func(kind string) *sstmt {
		w, tys := gt0()
		return &sstmt{kind: kind, w: w, tys: tys}
	}
	ins := func(n int) *sstmt {
		g := &gen{}
		s := &sstmt{kind: "insall"}
		for i := 0; i < n; i++ {
			s.vals = append(s.vals, g.newParam("late"))
		}
		s.tys = g.types
		return s
	}
	return []scripted{
		{pool: []*sstmt{ins(3), mk("star")}, steps: []string{"x0", "x0", "x1", "first:1", "x0", "x1", "add:last", "x0", "x1", "drop", "x0", "after:1:2", "x0", "x1"}},
		{pool: []*sstmt{mk("nj"), mk("star")}, steps: []string{"x0", "x1", "add:last", "x0", "x1", "drop", "x0", "first:2", "x0"}},
		{pool: []*sstmt{ins(4), ins(3), mk("nj")}, steps: []string{"x0", "add:first", "x0", "x1", "x2", "first:1", "x0", "drop", "x2", "x1"}},
	}
}

func parseScriptedDdl(s string) ddl {
	f := strings.Split(s, ":")
	num := func(i int) int {
		n := 0
		fmt.Sscan(f[i], &n)
		return n
	}
	switch f[0] {
	case "first":
		return ddl{op: "first", c: num(1)}
	case "after":
		return ddl{op: "after", c: num(1), a: num(2)}
	case "drop":
		return ddl{op: "drop"}
	}
	if f[1] == "after" {
		return ddl{op: "add", pos: "after", a: num(2)}
	}
	return ddl{op: "add", pos: f[1]}
}

// runSchemaHistories: the shist stream
func runSchemaHistories(p *paths, out *hx.Out, seed uint64, n int) error {
	r := hx.NewRand(seed*1000003 + 12).Fork()
	script := scriptedHistories()
	for h := 0; h < n+len(script); h++ {
		q, err := p.session()
		if err != nil {
			return err
		}
		rows := genRows(r)
		urows := genURows(r, rows)
		setup := []string{"DROP TABLE IF EXISTS t", "DROP TABLE IF EXISTS u", "CREATE TABLE t (id INT PRIMARY KEY, k INT, s VARCHAR(20))",
			"CREATE TABLE u (k INT, c INT, w INT)"}
		if len(rows) > 0 {
			setup = append(setup, "INSERT INTO t VALUES "+rowsSQL(rows))
		}
		if len(urows) > 0 {
			setup = append(setup, "INSERT INTO u VALUES "+rowsSQL(urows))
		}
		for _, s := range setup {
			if msg := q.everywhere(s); msg != "" {
				q.closeSession()
				return fmt.Errorf("setup %q: %s", s, msg)
			}
		}
		ord := []int{0, 1, 2}
		var pool []*sstmt
		var plan []string // scripted
		if h < len(script) {
			pool, plan = script[h].pool, script[h].steps
		} else {
			// distinct texts: the session caches a statement under its text, the model under its number
			have := map[string]bool{"SELECT * FROM t WHERE 1 ORDER BY id": true}
			for i := 2 + r.Intn(4); i > 0; i-- {
				st := genSStmt(r)
				if t := st.text(mode{}); !have[t] {
					have[t] = true
					pool = append(pool, st)
				}
			}
			if len(pool) == 0 {
				pool = append(pool, scriptedHistories()[0].pool[0])
			}
		}
		// the final dump: SELECT * shows data and physical order
		dump := &sstmt{kind: "star", w: &pexpr{op: "a", at: atom{param: -1, v: vint(1)}}}
		pool = append(pool, dump)
		nSteps := 6 + r.Intn(9)
		if plan != nil {
			nSteps = len(plan)
		}
		var steps []sstep
		var obsA []string
		var fails [][2]string // (tag, description)
		lastOrd := map[int]string{}  // statement -> physical order at its previous execution
		memoUsing := map[int]string{} // natural joins: common columns at the first bind
		nontrivial := false
		for i := 0; i <= nSteps; i++ {
			var sp sstep
			switch {
			case i == nSteps:
				sp = sstep{i: len(pool) - 1}
			case plan != nil && !strings.HasPrefix(plan[i], "x"):
				sp = sstep{isDdl: true, d: parseScriptedDdl(plan[i])}
			case plan != nil:
				fmt.Sscan(plan[i][1:], &sp.i)
			case r.Chance(3, 10):
				sp = sstep{isDdl: true, d: genDdl(r, ord)}
			default:
				sp = sstep{i: r.Intn(len(pool) - 1)}
			}
			if sp.isDdl {
				if msg := q.everywhere(sp.d.text()); msg != "" {
					obsA = append(obsA, "ddl-failed")
					fails = append(fails, [2]string{"-", fmt.Sprintf("step %d %q: %s", i, sp.d.text(), msg)})
				} else {
					obsA = append(obsA, "ddl")
				}
				ord = sp.d.apply(ord)
				out.Stat("shist.ddl." + sp.d.op)
				steps = append(steps, sp)
				continue
			}
			st := pool[sp.i]
			// values: placeholders of an INSERT without column list are typed by the physical order of this moment
			tys := append([]string(nil), st.tys...)
			for j, ty := range tys {
				if ty == "late" {
					if j < len(ord) {
						tys[j] = tyOfCol(ord[j])
					} else {
						tys[j] = "int"
					}
				}
			}
			sp.sigma = genSigma(r, tys)
			// mis-bound executions run on path (a) only: not for natural joins, whose first bind (on whichever path) is
			// recorded in the cached AST — the paths must see the same sequence of binds
			arityOk := plan == nil && st.kind != "insall" && st.kind != "nj"
			if arityOk && len(tys) > 0 && r.Chance(1, 30) {
				sp.present = make([]bool, len(tys))
				for j := range sp.present {
					sp.present[j] = true
				}
				sp.present[r.Intn(len(tys))] = false
			} else if arityOk && r.Chance(1, 40) {
				sp.extra = 1
			}
			steps = append(steps, sp)
			text := st.text(mode{})
			sigmaA := sp.sigma
			for j := 0; j < sp.extra; j++ {
				sigmaA = append(append([]value(nil), sigmaA...), vint(7))
			}
			oa := noPrep(q.execA(text, sigmaA, extendPresent(sp.present, sp.extra, len(sp.sigma))).obs())
			obsA = append(obsA, oa)
			out.Stat("shist.step." + st.kind)
			ordNow := fmt.Sprint(ord)
			if prev, ok := lastOrd[sp.i]; ok && prev != ordNow && st.kind != "plain" && st.kind != "inscols" {
				nontrivial = true
				out.Stat("shist.reexec-after-ddl." + st.kind)
			}
			lastOrd[sp.i] = ordNow
			staleNJ := false
			if st.kind == "nj" {
				if _, ok := memoUsing[sp.i]; !ok {
					memoUsing[sp.i] = commonCols(ord)
				}
				staleNJ = memoUsing[sp.i] != commonCols(ord)
				if staleNJ {
					out.Stat("shist.stale-nj")
				}
			}
			if sp.present != nil || sp.extra > 0 {
				out.Stat("shist.arity-mismatch")
				continue
			}
			ob := noPrep(q.execB(text, sp.sigma).obs())
			oc := noPrep(q.execC(text, sp.sigma, st.isSelect()).obs())
			od := q.execD(st.text(mode{inline: true, sigma: sp.sigma})).obs()
			if ob != oa || oc != oa || od != oa {
				tag := "-"
				if staleNJ {
					tag = regionNatJoin
				}
				fails = append(fails, [2]string{tag, fmt.Sprintf("step %d %q σ=%v order=%v: bindings-API=%s | PREPARE/EXECUTE=%s | wire-binary=%s | inlined=%s",
					i, text, sigmaStr(sp.sigma), ordNames(ord), oa, ob, oc, od)})
			}
		}
		var ps, ss []string
		for _, s := range pool {
			ps = append(ps, s.sexp())
		}
		for _, s := range steps {
			ss = append(ss, s.sexp())
		}
		id := out.Case(fmt.Sprintf("(shist (ord 0 1 2) (t %s) (u %s) (stmts %s) (steps %s))", rowsSexp(rows), rowsSexp(urows),
			strings.Join(ps, " "), strings.Join(ss, " ")), strings.Join(obsA, " ; "), nontrivial)
		out.Stat("shist")
		for _, f := range fails {
			out.OracleFail(id, f[0], f[1])
		}
		// the statement cache after the history: which cached ASTs are no longer the parse of their text, in the session of
		// path (a) (key: text) and of path (b) (key: PREPARE name). Model: `driftedStmts (finalCacheG bindAst …)` — natural
		// joins only (theorem no_drift_without_natJoin); carries no Spec ("?"), a difference is a broken correspondence.
		var da, db []string
		for i, st := range pool {
			text := st.text(mode{})
			if drift, _, _ := astDrift(q.ca, text, text); drift {
				da = append(da, fmt.Sprint(i))
			}
			if name, ok := q.names[text]; ok {
				if drift, _, _ := astDrift(q.cb, name, text); drift {
					db = append(db, fmt.Sprint(i))
				}
			}
		}
		out.Case(fmt.Sprintf("(sast (ord 0 1 2) (t %s) (u %s) (stmts %s) (steps %s))", rowsSexp(rows), rowsSexp(urows),
			strings.Join(ps, " "), strings.Join(ss, " ")), "ast a:["+strings.Join(da, " ")+"] b:["+strings.Join(db, " ")+"]", len(da) > 0)
		if len(da) > 0 {
			out.Stat("shist.cached-ast-drifted")
		}
		q.closeSession()
	}
	// leave no table behind that another stream does not expect
	for _, s := range []string{"DROP TABLE IF EXISTS u"} {
		p.a.Query(p.ca, s)
		p.b.Query(p.cb, s)
		p.d.Query(p.cd, s)
		p.wireExecRaw(s)
	}
	return nil
}

func ordNames(ord []int) string {
	parts := make([]string, len(ord))
	for i, c := range ord {
		parts[i] = colNames4[c]
	}
	return "(" + strings.Join(parts, ",") + ")"
}

// ---------------------------------------------------------------------------------------------
// case twins

func swapCase(s string) string {
	rs := []rune(s)
	for i, c := range rs {
		switch {
		case unicode.IsLower(c):
			rs[i] = unicode.ToUpper(c)
		case unicode.IsUpper(c):
			rs[i] = unicode.ToLower(c)
		}
	}
	return string(rs)
}

// strLits collects pointers to the string literal atoms of a statement whose value changes under swapCase
func (s *stmt) strLits() []*atom {
	var out []*atom
	take := func(a *atom) {
		if a.param < 0 && a.v.kind == "str" && swapCase(a.v.s) != a.v.s {
			out = append(out, a)
		}
	}
	var walk func(e *pexpr)
	walk = func(e *pexpr) {
		if e == nil {
			return
		}
		if e.op == "a" {
			take(&e.at)
		}
		for _, x := range e.args {
			walk(x)
		}
		for i := range e.items {
			take(&e.items[i])
		}
	}
	for _, e := range s.proj {
		walk(e)
	}
	walk(s.w)
	walk(s.e)
	for i := range s.vals {
		take(&s.vals[i])
	}
	return out
}

func cloneExpr(e *pexpr) *pexpr {
	if e == nil {
		return nil
	}
	c := *e
	c.args = nil
	for _, x := range e.args {
		c.args = append(c.args, cloneExpr(x))
	}
	c.items = append([]atom(nil), e.items...)
	return &c
}

func cloneStmt(s *stmt) *stmt {
	c := &stmt{kind: s.kind, col: s.col, w: cloneExpr(s.w), e: cloneExpr(s.e)}
	for _, e := range s.proj {
		c.proj = append(c.proj, cloneExpr(e))
	}
	if s.lim != nil {
		l := *s.lim
		c.lim = &l
	}
	c.vals = append([]atom(nil), s.vals...)
	return c
}

// genTwins: a parameterised statement containing a string literal with letters, and the same statement with the case
// of that literal swapped (the texts are equal up to letter case, the statements are not)
func genTwins(r *hx.Rand) (a, b *stmt, tys []string, lit string) {
	for {
		st, ty := genStmt(r)
		lits := st.strLits()
		if len(lits) == 0 {
			continue
		}
		tw := cloneStmt(st)
		l := tw.strLits()[r.Intn(len(lits))]
		lit = l.v.s
		l.v.s = swapCase(l.v.s)
		return st, tw, ty, lit
	}
}

// runTwinHistories: the twin stream (payloads in the `hist` format of main.go; one fresh session per history)
func runTwinHistories(p *paths, out *hx.Out, seed uint64, n int) error {
	r := hx.NewRand(seed*1000003 + 13).Fork()
	for h := 0; h < n; h++ {
		q, err := p.session()
		if err != nil {
			return err
		}
		a, b, tys, lit := genTwins(r)
		// rows: both spellings of the literal occur in s, next to ordinary values
		rows := genRows(r)
		for i := range rows {
			switch r.Intn(4) {
			case 0:
				rows[i][2] = vstr(lit)
			case 1:
				rows[i][2] = vstr(swapCase(lit))
			}
		}
		setup := []string{"DROP TABLE IF EXISTS t", "CREATE TABLE t (id INT PRIMARY KEY, k INT, s VARCHAR(20))"}
		if len(rows) > 0 {
			setup = append(setup, "INSERT INTO t VALUES "+rowsSQL(rows))
		}
		for _, s := range setup {
			if msg := q.everywhere(s); msg != "" {
				q.closeSession()
				return fmt.Errorf("setup %q: %s", s, msg)
			}
		}
		var steps []step
		for i, k := 0, 3+r.Intn(4); i < k; i++ {
			st := a
			if i%2 == 1 {
				st = b
			}
			steps = append(steps, step{st: st, sigma: genSigma(r, tys)})
			if r.Chance(1, 5) { // an unrelated statement in between
				o, oty := genStmt(r)
				steps = append(steps, step{st: o, sigma: genSigma(r, oty)})
			}
		}
		steps = append(steps, step{st: &stmt{kind: "select", proj: []*pexpr{{op: "col", col: 1}, {op: "col", col: 2}},
			w: &pexpr{op: "a", at: atom{param: -1, v: vint(1)}}}})
		var obsA, fails []string
		byText := map[string][]string{}
		for i, sp := range steps {
			text := sp.st.text(mode{})
			oa := noPrep(q.execA(text, sp.sigma, nil).obs())
			obsA = append(obsA, oa)
			byText[text] = append(byText[text], oa)
			out.Stat("twin.step." + sp.st.kind)
			ob := noPrep(q.execB(text, sp.sigma).obs())
			oc := noPrep(q.execC(text, sp.sigma, sp.st.kind == "select").obs())
			od := q.execD(sp.st.text(mode{inline: true, sigma: sp.sigma})).obs()
			if ob != oa || oc != oa || od != oa {
				fails = append(fails, fmt.Sprintf("step %d %q σ=%v: bindings-API=%s | PREPARE/EXECUTE=%s | wire-binary=%s | inlined=%s",
					i, text, sigmaStr(sp.sigma), oa, ob, oc, od))
			}
		}
		// non-trivial: both twins ran at least twice
		nontrivial := len(byText[a.text(mode{})]) >= 2 && len(byText[b.text(mode{})]) >= 2
		var ss []string
		for _, sp := range steps {
			ss = append(ss, sp.sexp())
		}
		id := out.Case(fmt.Sprintf("(hist (tbl %s) (steps %s))", rowsSexp(rows), strings.Join(ss, " ")), strings.Join(obsA, " ; "), nontrivial)
		out.Stat("twin")
		for _, f := range fails {
			out.OracleFail(id, "-", f)
		}
		q.closeSession()
	}
	return nil
}
