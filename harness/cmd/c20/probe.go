package main

import (
	"bufio"
	"fmt"
	"os"
	"strings"

	"github.com/dolthub/go-mysql-server/sql"
	"github.com/dolthub/go-mysql-server/verifharness/hx/eng"
)

// probe: development aid. Reads SQL statements from stdin (one per line), prints the outcome of
// each. "--new" builds a fresh engine; "--session N" switches to session N (created on demand).
func probe() {
	e := eng.New("d")
	sess := map[string]*sql.Context{"0": e.Ctx()}
	cur := sess["0"]
	sc := bufio.NewScanner(os.Stdin)
	sc.Buffer(make([]byte, 1<<20), 1<<20)
	for sc.Scan() {
		line := strings.TrimSpace(sc.Text())
		if line == "" || strings.HasPrefix(line, "#") {
			continue
		}
		if line == "--new" {
			e = eng.New("d")
			sess = map[string]*sql.Context{"0": e.Ctx()}
			cur = sess["0"]
			fmt.Println("---- new engine")
			continue
		}
		if strings.HasPrefix(line, "--session ") {
			n := strings.TrimPrefix(line, "--session ")
			if _, ok := sess[n]; !ok {
				sess[n] = e.Ctx()
			}
			cur = sess[n]
			fmt.Println("---- session", n)
			continue
		}
		r := e.Query(eng.SameSession(cur), line)
		fmt.Printf("%-72s => %s", line, r.Class())
		if r.Panic != "" {
			fmt.Printf(" [panic: %s]", r.Panic)
		}
		if r.Err != nil {
			fmt.Printf(" (%v)", r.Err)
		}
		if r.IsOk {
			fmt.Printf(" affected=%d insertid=%d", r.Affected, r.InsertID)
		}
		if len(r.Rows) > 0 {
			fmt.Printf(" rows=%v", r.Rows)
		}
		fmt.Println()
	}
}
