// C20 — AUTO_INCREMENT values are unique, increasing and reported correctly.
//
// extract: branch structure of the counter code (go/ast) + a table of updateAutoIncrementSafe
// results dumped from the freshly compiled code.
// run: histories of INSERT / DELETE / UPDATE / ALTER … AUTO_INCREMENT / TRUNCATE / table rewrites
// (ALTER TABLE … ADD COLUMN … NOT NULL DEFAULT / DROP COLUMN: the old rows are re-inserted straight
// through the table editor, without AutoIncrement.Eval) on one table, two
// sessions, against the real engine; the observation after every statement is the result class,
// OK-packet InsertID, the raw counter, SHOW CREATE's AUTO_INCREMENT, LAST_INSERT_ID() of both
// sessions and the (id, tag) dump. The model-free oracle evaluates the property on these.
package main

import (
	"context"
	"fmt"
	"go/ast"
	"go/token"
	"math/big"
	"os"
	"regexp"
	"sort"
	"strconv"
	"strings"
	"sync"
	"sync/atomic"

	"github.com/dolthub/go-mysql-server/memory"
	"github.com/dolthub/go-mysql-server/sql"
	"github.com/dolthub/go-mysql-server/sql/types"
	"github.com/dolthub/go-mysql-server/verifharness/hx"
	"github.com/dolthub/go-mysql-server/verifharness/hx/eng"
)

func main() {
	if len(os.Args) > 1 && os.Args[1] == "probe" {
		probe()
		return
	}
	hx.Main(extract, run)
}

// ---------------------------------------------------------------------------------------------
// column types

type colType struct {
	name   string
	lo, hi *big.Int
	typ    sql.Type
}

func bi(s string) *big.Int {
	v, ok := new(big.Int).SetString(s, 10)
	if !ok {
		panic("bad int " + s)
	}
	return v
}

var colTypes = []colType{
	{"TINYINT", bi("-128"), bi("127"), types.Int8},
	{"TINYINT UNSIGNED", bi("0"), bi("255"), types.Uint8},
	{"SMALLINT", bi("-32768"), bi("32767"), types.Int16},
	{"SMALLINT UNSIGNED", bi("0"), bi("65535"), types.Uint16},
	{"INT", bi("-2147483648"), bi("2147483647"), types.Int32},
	{"INT UNSIGNED", bi("0"), bi("4294967295"), types.Uint32},
	{"BIGINT", bi("-9223372036854775808"), bi("9223372036854775807"), types.Int64},
	{"BIGINT UNSIGNED", bi("0"), bi("18446744073709551615"), types.Uint64},
}

// ---------------------------------------------------------------------------------------------
// Facts

func condText(src *hx.Src, e ast.Expr) string { return strings.Join(strings.Fields(src.Text(e)), " ") }

// branchActions summarises a block: "set" for an assignment to …autoIncVal, "bump" for a call of
// updateAutoIncrementSafe, in order.
func branchActions(src *hx.Src, b *ast.BlockStmt) string {
	var acts []string
	ast.Inspect(b, func(n ast.Node) bool {
		switch x := n.(type) {
		case *ast.AssignStmt:
			for _, l := range x.Lhs {
				if sel, ok := l.(*ast.SelectorExpr); ok && sel.Sel.Name == "autoIncVal" {
					acts = append(acts, "set")
				}
			}
		case *ast.CallExpr:
			if id, ok := x.Fun.(*ast.Ident); ok && id.Name == "updateAutoIncrementSafe" {
				acts = append(acts, "bump")
			}
		}
		return true
	})
	return strings.Join(acts, ",")
}

func extract(a hx.ExtractArgs) error {
	lf := hx.NewLeanFile("Gms.Generated.C20", "memory/table_editor.go", "memory/table.go", "memory/table_data.go",
		"sql/expression/auto_increment.go", "sql/rowexec/insert.go", "sql/rowexec/dml_iters.go", "sql/rowexec/dml.go")

	// 1. tableEditor.Insert: the `cmp > 0 … else if cmp == 0 …` chain on the counter
	ed, err := hx.ParseSrc(a.Repo, "memory/table_editor.go")
	if err != nil {
		return err
	}
	ins, err := ed.Func("tableEditor", "Insert")
	if err != nil {
		return err
	}
	var chain []string
	ast.Inspect(ins.Body, func(n ast.Node) bool {
		is, ok := n.(*ast.IfStmt)
		if !ok || len(chain) > 0 {
			return true
		}
		if !strings.HasPrefix(condText(ed, is.Cond), "cmp ") {
			return true
		}
		for cur := is; cur != nil; {
			chain = append(chain, condText(ed, cur.Cond)+" => "+branchActions(ed, cur.Body))
			switch e := cur.Else.(type) {
			case *ast.IfStmt:
				cur = e
			case *ast.BlockStmt:
				chain = append(chain, "else => "+branchActions(ed, e))
				cur = nil
			default:
				cur = nil
			}
		}
		return false
	})
	if len(chain) == 0 {
		return fmt.Errorf("tableEditor.Insert: no `if cmp …` chain on the auto-increment counter found")
	}
	lf.DefStringList("insertCounterChain", chain)

	// 2. SetAutoIncrementValue: statements of the body
	setf, err := ed.Func("tableEditor", "SetAutoIncrementValue")
	if err != nil {
		return err
	}
	var setBody []string
	for _, st := range setf.Body.List {
		setBody = append(setBody, condText(ed, nil2expr(ed, st)))
	}
	lf.DefStringList("setAutoIncrementBody", setBody)

	// 3. GetNextAutoIncrementValue: guard of the counter assignment; truncate: constants
	tb, err := hx.ParseSrc(a.Repo, "memory/table.go")
	if err != nil {
		return err
	}
	gn, err := tb.Func("Table", "GetNextAutoIncrementValue")
	if err != nil {
		return err
	}
	var guards []string
	ast.Inspect(gn.Body, func(n ast.Node) bool {
		if is, ok := n.(*ast.IfStmt); ok {
			if acts := branchActions(tb, is.Body); strings.Contains(acts, "set") {
				guards = append(guards, condText(tb, is.Cond)+" => "+acts)
			}
		}
		return true
	})
	lf.DefStringList("getNextGuards", guards)

	td, err := hx.ParseSrc(a.Repo, "memory/table_data.go")
	if err != nil {
		return err
	}
	tr, err := td.Func("TableData", "truncate")
	if err != nil {
		return err
	}
	var truncVals []string
	ast.Inspect(tr.Body, func(n ast.Node) bool {
		if as, ok := n.(*ast.AssignStmt); ok && len(as.Lhs) == 1 {
			if sel, ok := as.Lhs[0].(*ast.SelectorExpr); ok && sel.Sel.Name == "autoIncVal" {
				truncVals = append(truncVals, condText(td, as.Rhs[0]))
			}
		}
		return true
	})
	lf.DefStringList("truncateCounterValues", truncVals)

	// 4. AutoIncrement.Eval: the sequence of top-level `if` conditions
	ai, err := hx.ParseSrc(a.Repo, "sql/expression/auto_increment.go")
	if err != nil {
		return err
	}
	ev, err := ai.Func("AutoIncrement", "Eval")
	if err != nil {
		return err
	}
	var evalConds []string
	for _, st := range ev.Body.List {
		if is, ok := st.(*ast.IfStmt); ok {
			c := condText(ai, is.Cond)
			if c != "err != nil" {
				evalConds = append(evalConds, c)
			}
		}
	}
	lf.DefStringList("evalBranchConds", evalConds)

	// 5. insertIter.updateLastInsertId: conditions + decrement
	ri, err := hx.ParseSrc(a.Repo, "sql/rowexec/insert.go")
	if err != nil {
		return err
	}
	ul, err := ri.Func("insertIter", "updateLastInsertId")
	if err != nil {
		return err
	}
	var ulShape []string
	for _, st := range ul.Body.List {
		switch x := st.(type) {
		case *ast.IfStmt:
			body := "…"
			if len(x.Body.List) == 1 {
				if _, ok := x.Body.List[0].(*ast.ReturnStmt); ok {
					body = "return"
				}
			}
			if strings.Contains(ri.Text(x.Body), "LastInsertId.Store") {
				body = "store"
			}
			ulShape = append(ulShape, "if "+condText(ri, x.Cond)+" "+body)
		case *ast.IncDecStmt:
			ulShape = append(ulShape, condText(ri, x.X)+x.Tok.String())
		default:
			ulShape = append(ulShape, "other")
		}
	}
	lf.DefStringList("updateLastInsertIdShape", ulShape)

	// 6. insertRowHandler.handleRowUpdate: InsertID is taken from the first handled row only
	di, err := hx.ParseSrc(a.Repo, "sql/rowexec/dml_iters.go")
	if err != nil {
		return err
	}
	hr, err := di.Func("insertRowHandler", "handleRowUpdate")
	if err != nil {
		return err
	}
	var hrConds []string
	ast.Inspect(hr.Body, func(n ast.Node) bool {
		if is, ok := n.(*ast.IfStmt); ok {
			hrConds = append(hrConds, condText(di, is.Cond))
		}
		return true
	})
	lf.DefStringList("insertIdGuards", hrConds)

	// 6b. buildTruncate: TRUNCATE resets the counter through SetAutoIncrementValue(ctx, <arg>)
	dm, err := hx.ParseSrc(a.Repo, "sql/rowexec/dml.go")
	if err != nil {
		return err
	}
	bt, err := dm.Func("BaseBuilder", "buildTruncate")
	if err != nil {
		return err
	}
	var truncArgs []string
	ast.Inspect(bt.Body, func(n ast.Node) bool {
		if ce, ok := n.(*ast.CallExpr); ok {
			if sel, ok := ce.Fun.(*ast.SelectorExpr); ok && sel.Sel.Name == "SetAutoIncrementValue" && len(ce.Args) == 2 {
				truncArgs = append(truncArgs, condText(dm, ce.Args[1]))
			}
		}
		return true
	})
	lf.DefStringList("truncateSetsCounterTo", truncArgs)

	// 7. run-time table of updateAutoIncrementSafe over every integer column type
	ctx := sql.NewEmptyContext()
	var b strings.Builder
	b.WriteString("/-- (lo, hi, counter before, counter after) of `updateAutoIncrementSafe`, dumped from the compiled code -/\n")
	b.WriteString("def bumpTable : List (Int × Int × Nat × Nat) := [\n")
	first := true
	for _, ct := range colTypes {
		col := &sql.Column{Name: "id", Type: ct.typ, AutoIncrement: true}
		var ins []uint64
		for _, d := range []int64{-2, -1, 0, 1} {
			v := new(big.Int).Add(ct.hi, big.NewInt(d))
			if v.Sign() >= 0 && v.IsUint64() {
				ins = append(ins, v.Uint64())
			}
		}
		ins = append(ins, 0, 1, 2, 100, 1<<63-1, 1<<63, ^uint64(0)-1, ^uint64(0))
		for _, in := range ins {
			out := memory.VerifBumpAutoInc(ctx, col, in)
			if !first {
				b.WriteString(",\n")
			}
			first = false
			fmt.Fprintf(&b, "  (%s, %s, %d, %d)", leanBig(ct.lo), leanBig(ct.hi), in, out)
		}
	}
	b.WriteString("]\n")
	lf.Raw(b.String())
	return lf.Write(a.Out)
}

// nil2expr lets condText print a statement (printer accepts any node).
func nil2expr(src *hx.Src, st ast.Stmt) ast.Expr {
	return &ast.BasicLit{Kind: token.STRING, Value: strings.Join(strings.Fields(src.Text(st)), " ")}
}

func leanBig(v *big.Int) string {
	if v.Sign() < 0 {
		return "(" + v.String() + ")"
	}
	return v.String()
}

// ---------------------------------------------------------------------------------------------
// Histories

type op struct {
	kind string   // ins del upd alt trunc rw
	sess int      // ins
	gs   []string // ins: "n" or integer text
	form int      // ins: SQL rendering variant
	a, b *big.Int // del: lo hi; upd: a b; alt: a
}

func (o op) payload() string {
	switch o.kind {
	case "ins":
		return "(ins " + strconv.Itoa(o.sess) + " " + strings.Join(o.gs, " ") + ")"
	case "del":
		return "(del " + o.a.String() + " " + o.b.String() + ")"
	case "upd":
		return "(upd " + o.a.String() + " " + o.b.String() + ")"
	case "alt":
		return "(alt " + o.a.String() + ")"
	case "rw":
		return "(rw)"
	}
	return "(trunc)"
}

type hist struct {
	ct   colType
	key  string // pk | uniq | key
	ops  []op
	note string
}

func (h hist) uniq() bool { return h.key != "key" }

func (h hist) payload() string {
	u := "0"
	if h.uniq() {
		u = "1"
	}
	parts := make([]string, len(h.ops))
	for i, o := range h.ops {
		parts[i] = o.payload()
	}
	return "(hist " + h.ct.lo.String() + " " + h.ct.hi.String() + " " + u + " " + strings.Join(parts, " ") + ")"
}

func (h hist) ddl() string {
	switch h.key {
	case "pk":
		return "CREATE TABLE t (id " + h.ct.name + " PRIMARY KEY AUTO_INCREMENT, v INT)"
	case "uniq":
		return "CREATE TABLE t (id " + h.ct.name + " AUTO_INCREMENT, v INT, UNIQUE KEY (id))"
	}
	return "CREATE TABLE t (id " + h.ct.name + " AUTO_INCREMENT, v INT, KEY (id))"
}

// sql renders the statement; extra = the table currently has the additional column w (added by a
// rewrite), so INSERTs must list their columns; for "rw" it selects DROP COLUMN w over ADD COLUMN w.
func (o op) sql(opIdx int, extra bool) string {
	switch o.kind {
	case "ins":
		allN := true
		for _, g := range o.gs {
			if g != "n" {
				allN = false
			}
		}
		var tuples []string
		if allN && o.form%3 == 0 {
			for i := range o.gs {
				tuples = append(tuples, fmt.Sprintf("(%d)", opIdx*100+i))
			}
			return "INSERT INTO t (v) VALUES " + strings.Join(tuples, ",")
		}
		for i, g := range o.gs {
			lit := g
			if g == "n" {
				lit = "NULL"
				if (o.form+i)%4 == 1 {
					lit = "DEFAULT"
				}
			}
			tuples = append(tuples, fmt.Sprintf("(%s,%d)", lit, opIdx*100+i))
		}
		if o.form%2 == 0 && !extra {
			return "INSERT INTO t VALUES " + strings.Join(tuples, ",")
		}
		return "INSERT INTO t (id, v) VALUES " + strings.Join(tuples, ",")
	case "del":
		return "DELETE FROM t WHERE id BETWEEN " + o.a.String() + " AND " + o.b.String()
	case "upd":
		return "UPDATE t SET id = " + o.b.String() + " WHERE id = " + o.a.String()
	case "alt":
		return "ALTER TABLE t AUTO_INCREMENT = " + o.a.String()
	case "rw":
		if extra {
			return "ALTER TABLE t DROP COLUMN w"
		}
		return "ALTER TABLE t ADD COLUMN w INT NOT NULL DEFAULT 7"
	}
	return "TRUNCATE TABLE t"
}

var reAuto = regexp.MustCompile(`AUTO_INCREMENT=(\d+)`)

type row struct {
	id  *big.Int
	tag int
}

type ev struct {
	v   *big.Int
	gen bool
}

func errClass(r *eng.Res) string {
	if r.Panic != "" {
		return "crash:" + r.Panic
	}
	if r.Timeout {
		return "timeout"
	}
	if r.Errno == 1062 {
		return "err:dup"
	}
	if r.Err != nil && strings.Contains(r.Err.Error(), "out of range") {
		return "err:range"
	}
	return fmt.Sprintf("err:%d", r.Errno)
}

func isGenGiven(g string) bool { return g == "n" || g == "0" }

var connSeq atomic.Uint32

// newCtx is eng.Eng.Ctx with an atomic connection counter (histories run on parallel engines).
func newCtx(e *eng.Eng) *sql.Context {
	id := 1000 + connSeq.Add(1)
	bs := sql.NewBaseSessionWithClientServer("localhost:3306", sql.Client{Address: "localhost", User: "root"}, id)
	sess := memory.NewSession(bs, e.Pro)
	ctx := sql.NewContext(context.Background(), sql.WithSession(sess))
	ctx.SetCurrentDatabase(e.DBs[0].Name())
	return ctx
}

// runHist executes the history on a fresh table and fresh sessions; returns the observation and the oracle verdicts.
func runHist(e *eng.Eng, h hist) (obs string, fails [][2]string, feats map[string]bool) {
	feats = map[string]bool{}
	ctxs := []*sql.Context{newCtx(e), newCtx(e)}
	e.MustExec(eng.SameSession(ctxs[0]), "DROP TABLE IF EXISTS t", h.ddl())
	q := func(s int, text string) *eng.Res { return e.Query(eng.SameSession(ctxs[s]), text) }

	var parts []string
	var log []ev
	prevLast := []string{"0", "0"}
	counterBefore := new(big.Int).SetInt64(1)
	lastAlter := "" // region of the most recent lowering ALTER / rewrite since the last TRUNCATE
	hasW := false   // the table currently has the extra column w
	var prevRows []row
	fail := func(tag, desc string) { fails = append(fails, [2]string{tag, desc}) }

	for k, o := range h.ops {
		sess := 0
		if o.kind == "ins" {
			sess = o.sess
		}
		text := o.sql(k, hasW)
		r := q(sess, text)
		if o.kind == "rw" && r.Class() == "ok" {
			hasW = !hasW
		}
		res := ""
		switch {
		case r.Class() != "ok":
			res = errClass(r)
		case r.IsOk:
			res = fmt.Sprintf("ok:%d:%d", r.Affected, r.InsertID)
		default:
			res = "done"
		}
		// state after the statement (observed through fresh queries; the counter through a new session)
		rawCtr := "?"
		if p := hx.Safe(func() {
			c := newCtx(e)
			t, ok, err := e.DBs[0].GetTableInsensitive(c, "t")
			if err != nil || !ok {
				panic("table t not found")
			}
			rawCtr = strconv.FormatUint(memory.VerifAutoIncVal(c, t.(*memory.Table)), 10)
		}); p != "" {
			rawCtr = "crash:" + p
		}
		sc := q(0, "SHOW CREATE TABLE t")
		peek := "-"
		if len(sc.Rows) == 1 && len(sc.Rows[0]) == 2 {
			if m := reAuto.FindStringSubmatch(sc.Rows[0][1]); m != nil {
				peek = m[1]
			}
		} else {
			peek = "?" + sc.Class()
		}
		lasts := make([]string, 2)
		for s := 0; s < 2; s++ {
			lr := q(s, "SELECT LAST_INSERT_ID()")
			if len(lr.Rows) == 1 {
				lasts[s] = lr.Rows[0][0]
			} else {
				lasts[s] = "?" + lr.Class()
			}
		}
		dr := q(0, "SELECT id, v FROM t")
		var rows []row
		for _, rw := range dr.Rows {
			id, ok := new(big.Int).SetString(rw[0], 10)
			tag, err := strconv.Atoi(rw[1])
			if !ok || err != nil {
				id, tag = big.NewInt(-999999), -1
			}
			rows = append(rows, row{id, tag})
		}
		sort.Slice(rows, func(i, j int) bool {
			if c := rows[i].id.Cmp(rows[j].id); c != 0 {
				return c < 0
			}
			return rows[i].tag < rows[j].tag
		})
		dump := make([]string, len(rows))
		for i, rw := range rows {
			dump[i] = fmt.Sprintf("%s.%d", rw.id, rw.tag)
		}
		if dr.Class() != "ok" {
			dump = []string{"?" + dr.Class()}
		}
		parts = append(parts, fmt.Sprintf("%s|c=%s,%s|l=%s,%s|%s", res, rawCtr, peek, lasts[0], lasts[1], strings.Join(dump, ",")))

		// ----- model-free property oracle
		switch o.kind {
		case "trunc":
			if strings.HasPrefix(res, "ok") {
				log = nil
				lastAlter = ""
			}
		case "alt":
			if o.a.Cmp(counterBefore) < 0 {
				below := false
				for _, rw := range prevRows {
					if rw.id.Cmp(o.a) >= 0 {
						below = true
					}
				}
				if below {
					lastAlter = "alter_below_existing"
				} else {
					lastAlter = "alter_below_counter"
				}
				feats["alter-lower"] = true
			} else {
				feats["alter-raise"] = true
			}
		case "rw":
			feats["rewrite"] = true
			// The rows re-inserted by the rewrite never pass through AutoIncrement.Eval. Demands: the
			// statement succeeds, keeps the rows, and does not lower the counter. The unchanged code
			// re-derives the counter from the stored rows alone (largest id + 1, saturating), so it
			// forgets a counter that was above that: region rewrite_lowers_counter, decided on the
			// state before the statement.
			want := big64(1)
			for _, rw := range prevRows {
				if rw.id.Cmp(want) >= 0 {
					want = new(big.Int).Add(rw.id, big64(1))
					if want.Cmp(h.ct.hi) > 0 {
						want = new(big.Int).Set(rw.id)
					}
				}
			}
			inRegion := counterBefore.Cmp(want) > 0
			if inRegion {
				feats["rewrite-counter-above-rows"] = true
			}
			for _, rw := range prevRows {
				if rw.id.Cmp(big64(1)) > 0 && len(prevRows) > 1 {
					feats["rewrite-with-rows"] = true
				}
			}
			if !strings.HasPrefix(res, "ok") {
				fail("-", fmt.Sprintf("op %d `%s` failed (%s)", k, text, res))
				break
			}
			if fmt.Sprint(dumpOf(prevRows)) != fmt.Sprint(dump) {
				fail("-", fmt.Sprintf("op %d `%s` changed the (id, v) rows", k, text))
			}
			if now, ok := new(big.Int).SetString(rawCtr, 10); ok && now.Cmp(counterBefore) < 0 {
				tag := "-"
				if inRegion && now.Cmp(want) >= 0 {
					tag = "rewrite_lowers_counter"
					lastAlter = tag
				}
				fail(tag, fmt.Sprintf("op %d `%s` (table rewrite) lowered the AUTO_INCREMENT counter from %s to %s (largest stored id: counter should stay ≥ %s)", k, text, counterBefore, rawCtr, want))
			}
		case "del":
			feats["delete"] = true
		case "upd":
			feats["update"] = true
		case "ins":
			anyGen := false
			for _, g := range o.gs {
				if isGenGiven(g) {
					anyGen = true
				}
			}
			if strings.HasPrefix(res, "ok") {
				// ids by tag
				var evs []ev
				okTags := true
				for i, g := range o.gs {
					var id *big.Int
					for _, rw := range rows {
						if rw.tag == k*100+i {
							id = rw.id
						}
					}
					if id == nil {
						okTags = false
						break
					}
					evs = append(evs, ev{id, isGenGiven(g)})
				}
				if !okTags {
					fail("-", fmt.Sprintf("op %d `%s` succeeded but its rows are not all in the table", k, text))
					break
				}
				var firstGen *big.Int
				for _, x := range evs {
					if x.gen {
						feats["generated"] = true
						for _, w := range log {
							if w.v.Cmp(x.v) >= 0 {
								tag := "-"
								if x.v.Cmp(h.ct.hi) == 0 {
									tag = "saturated_reuse"
								} else if lastAlter != "" {
									tag = lastAlter
								}
								fail(tag, fmt.Sprintf("op %d `%s`: generated id %s does not exceed the earlier inserted id %s", k, text, x.v, w.v))
								break
							}
						}
						if firstGen == nil {
							firstGen = x.v
						}
					} else if x.v.Cmp(counterBefore) > 0 {
						feats["explicit-above-counter"] = true
					}
					log = append(log, x)
				}
				if firstGen != nil {
					want := firstGen.String()
					if lasts[sess] != want {
						fail("-", fmt.Sprintf("op %d `%s`: LAST_INSERT_ID() = %s, first generated id is %s", k, text, lasts[sess], want))
					}
					if got := strconv.FormatUint(r.InsertID, 10); got != want {
						tag := "-"
						if !isGenGiven(o.gs[0]) {
							tag = "okpacket_first_row_explicit"
						}
						fail(tag, fmt.Sprintf("op %d `%s`: OK packet InsertID = %s, first generated id is %s", k, text, got, want))
					}
				} else if lasts[sess] != prevLast[sess] {
					fail("-", fmt.Sprintf("op %d `%s` generated nothing but changed LAST_INSERT_ID() from %s to %s", k, text, prevLast[sess], lasts[sess]))
				}
			} else {
				feats["failed-insert"] = true
				if lasts[sess] != prevLast[sess] {
					tag := "-"
					if anyGen {
						tag = "failed_insert_sets_last_insert_id"
					}
					fail(tag, fmt.Sprintf("op %d `%s` failed (%s) but changed LAST_INSERT_ID() from %s to %s", k, text, res, prevLast[sess], lasts[sess]))
				}
				// a failed statement must leave the table and the counter alone
				if fmt.Sprint(dumpOf(prevRows)) != fmt.Sprint(dump) {
					fail("-", fmt.Sprintf("op %d `%s` failed (%s) but changed the table", k, text, res))
				}
				if rawCtr != counterBefore.String() {
					fail("-", fmt.Sprintf("op %d `%s` failed (%s) but moved the counter from %s to %s", k, text, res, counterBefore, rawCtr))
				}
			}
			if lasts[1-sess] != prevLast[1-sess] {
				fail("-", fmt.Sprintf("op %d `%s` in session %d changed LAST_INSERT_ID() of the other session", k, text, sess))
			}
		}
		prevLast = lasts
		prevRows = rows
		if v, ok := new(big.Int).SetString(rawCtr, 10); ok {
			counterBefore = v
		}
	}
	return strings.Join(parts, ";"), fails, feats
}

func dumpOf(rows []row) []string {
	d := make([]string, len(rows))
	for i, rw := range rows {
		d[i] = fmt.Sprintf("%s.%d", rw.id, rw.tag)
	}
	return d
}

// ---------------------------------------------------------------------------------------------
// Generators

func big64(v int64) *big.Int { return big.NewInt(v) }

func genHist(r *hx.Rand, thorough bool) hist {
	h := hist{ct: hx.Pick(r, colTypes), key: hx.Pick(r, []string{"pk", "pk", "uniq", "key"})}
	nearMax := r.Chance(1, 3) // play near the type maximum so that saturation is reachable
	signed := h.ct.lo.Sign() < 0
	wide := h.ct.hi.BitLen() >= 63
	val := func() *big.Int { // a positive value in the active zone
		if nearMax {
			return new(big.Int).Sub(h.ct.hi, big64(int64(r.Intn(6))))
		}
		return big64(int64(1 + r.Intn(24)))
	}
	n := r.Range(3, 10)
	if thorough {
		n = r.Range(3, 16)
	}
	allowLower := r.Chance(1, 4)
	for i := 0; i < n; i++ {
		switch x := r.Intn(100); {
		case x < 54:
			o := op{kind: "ins", sess: r.Intn(2), form: r.Intn(12)}
			rows := 1 + r.Intn(4)
			for j := 0; j < rows; j++ {
				switch y := r.Intn(100); {
				case y < 55:
					o.gs = append(o.gs, "n")
				case y < 61:
					o.gs = append(o.gs, "0")
				case y < 92:
					o.gs = append(o.gs, val().String())
				case y < 96 && signed:
					o.gs = append(o.gs, big64(-int64(1+r.Intn(5))).String())
				case y < 98 && !wide:
					o.gs = append(o.gs, new(big.Int).Add(h.ct.hi, big64(int64(1+r.Intn(3)))).String())
				case y < 99 && !signed:
					o.gs = append(o.gs, "-1")
				default:
					o.gs = append(o.gs, "n")
				}
			}
			h.ops = append(h.ops, o)
		case x < 66:
			a := val()
			b := new(big.Int).Add(a, big64(int64(r.Intn(4))))
			if r.Chance(1, 4) {
				a, b = new(big.Int).Set(h.ct.lo), new(big.Int).Set(h.ct.hi) // delete everything
			}
			h.ops = append(h.ops, op{kind: "del", a: a, b: b})
		case x < 75:
			h.ops = append(h.ops, op{kind: "upd", a: val(), b: val()})
		case x < 84:
			// table rewrite: the stored rows (with whatever gaps explicit ids, deletes and updates
			// left) are re-inserted through the editor
			h.ops = append(h.ops, op{kind: "rw"})
		case x < 95:
			var v *big.Int
			switch {
			case allowLower && r.Chance(1, 2):
				v = val() // may be below the counter
				if r.Chance(1, 6) {
					v = big64(int64(r.Intn(2)))
				}
			case r.Chance(1, 5) && !wide:
				v = new(big.Int).Add(h.ct.hi, big64(int64(r.Intn(3)))) // at or just beyond the maximum
			default: // raise: beyond anything used so far
				v = new(big.Int).Add(val(), big64(int64(30+r.Intn(5))))
				if nearMax {
					v = new(big.Int).Sub(h.ct.hi, big64(int64(r.Intn(3))))
				}
			}
			if v.Sign() < 0 {
				v = big64(0)
			}
			if v.Cmp(h.ct.hi) > 0 && wide {
				v = new(big.Int).Set(h.ct.hi)
			}
			h.ops = append(h.ops, op{kind: "alt", a: v})
		default:
			h.ops = append(h.ops, op{kind: "trunc"})
		}
	}
	return h
}

func corpus() []hist {
	t8 := colTypes[0]
	u8 := colTypes[1]
	u64 := colTypes[7]
	i64 := colTypes[6]
	ins := func(s int, gs ...string) op { return op{kind: "ins", sess: s, gs: gs, form: 1} }
	alt := func(v string) op { return op{kind: "alt", a: bi(v)} }
	del := func(a, b string) op { return op{kind: "del", a: bi(a), b: bi(b)} }
	upd := func(a, b string) op { return op{kind: "upd", a: bi(a), b: bi(b)} }
	rw := op{kind: "rw"}
	i32 := colTypes[4]
	return []hist{
		// table rewrites: rows reach the editor without AutoIncrement.Eval — gaps from an explicit id,
		// from a delete in the middle, from an update; two rewrites in a row; negative ids only; saturated
		{ct: i32, key: "pk", ops: []op{ins(0, "n", "n", "n"), ins(0, "10"), rw, ins(0, "n"), ins(1, "n", "n"), rw, ins(0, "n")}},
		{ct: t8, key: "uniq", ops: []op{ins(0, "n", "n", "n", "n"), del("2", "3"), rw, ins(0, "n"), upd("1", "20"), rw, ins(1, "n")}},
		{ct: t8, key: "key", ops: []op{ins(0, "5"), rw, ins(0, "n"), ins(0, "-3"), del("1", "127"), rw, ins(0, "n")}},
		{ct: t8, key: "key", ops: []op{ins(0, "126"), ins(0, "n", "n"), rw, ins(0, "n")}},
		{ct: u8, key: "pk", ops: []op{ins(0, "254"), ins(0, "n"), rw, ins(0, "n"), del("255", "255"), rw, ins(0, "n")}},
		// a rewrite forgets a counter that was above the stored rows (after a delete / an ALTER)
		{ct: t8, key: "pk", ops: []op{ins(0, "n", "n", "n"), ins(0, "10"), del("10", "10"), rw, ins(0, "n")}},
		{ct: i32, key: "pk", ops: []op{ins(0, "n", "n"), alt("50"), rw, ins(0, "n"), op{kind: "trunc"}, rw, ins(0, "n")}},
		// DESIGN §8 F-C20-a: ALTER lowers the counter below an existing id
		{ct: t8, key: "pk", note: "F-C20-a", ops: []op{ins(0, "n", "n"), ins(0, "127"), alt("60"), ins(0, "n")}},
		// ALTER below the counter after deletes: ids are handed out again
		{ct: t8, key: "pk", ops: []op{ins(0, "n", "n", "n"), del("-128", "127"), alt("2"), ins(0, "n")}},
		// saturation with a plain KEY: duplicates are generated
		{ct: t8, key: "key", ops: []op{ins(0, "126"), ins(0, "n"), ins(0, "n"), ins(1, "n")}},
		// saturation with a PK: error; after deleting the maximum it is handed out again
		{ct: u8, key: "pk", ops: []op{ins(0, "254"), ins(0, "n"), ins(0, "n"), del("255", "255"), ins(0, "n")}},
		// failed statement sets LAST_INSERT_ID
		{ct: t8, key: "pk", ops: []op{ins(0, "5"), ins(0, "n"), ins(0, "n", "5"), ins(0, "n")}},
		// OK packet reports the explicit first row
		{ct: t8, key: "uniq", ops: []op{ins(0, "20", "n"), ins(1, "n", "30", "n"), ins(0, "40", "41")}},
		// regular behaviour: mixed rows, delete, update, two sessions, truncate
		{ct: i64, key: "pk", ops: []op{ins(0, "5", "n", "3", "n", "50", "1"), del("4", "60"), ins(1, "n"), upd("1", "100"), ins(0, "n", "n"), op{kind: "trunc"}, ins(1, "n")}},
		{ct: u64, key: "pk", ops: []op{ins(0, "18446744073709551613"), ins(0, "n"), ins(0, "n"), ins(0, "n")}},
		{ct: i64, key: "pk", ops: []op{ins(0, "9223372036854775806"), ins(0, "n"), ins(0, "n")}},
		{ct: t8, key: "pk", ops: []op{alt("300"), ins(0, "70"), ins(0, "n"), alt("128"), ins(0, "n"), alt("127"), ins(0, "n")}},
		{ct: t8, key: "pk", ops: []op{ins(0, "-5"), ins(0, "0"), ins(0, "n", "-3"), ins(0, "130"), ins(0, "9", "200")}},
		{ct: u8, key: "uniq", ops: []op{ins(0, "-1"), ins(0, "n"), alt("0"), ins(0, "n"), ins(0, "n")}},
	}
}

func run(a hx.RunArgs) error {
	out := hx.NewOut(a.OutDir)
	defer out.Close()
	out.Rule = "one case = one history (3-16 statements: plain INSERT with NULL/DEFAULT/0/explicit/negative/out-of-range values and 1-4 rows, " +
		"DELETE, UPDATE of the id, ALTER … AUTO_INCREMENT raising and lowering, TRUNCATE, table rewrites ALTER TABLE … ADD COLUMN w … NOT NULL DEFAULT / DROP COLUMN w that re-insert the stored rows through the editor) on one table (8 integer types × PK/UNIQUE/KEY, values small or near the type maximum), two sessions; " +
		"non-trivial = at least one value was generated and the history also contains an explicit id above the counter, a delete, a failed insert, an ALTER or a table rewrite"
	r := hx.NewRand(a.Seed)
	n := 500
	if a.Thorough {
		n = 25000
	}
	hs := corpus()
	for i := 0; i < n; i++ {
		hs = append(hs, genHist(r, a.Thorough))
	}
	type result struct {
		obs   string
		fails [][2]string
		feats map[string]bool
	}
	results := make([]result, len(hs))
	var wg sync.WaitGroup
	var next atomic.Int64
	for w := 0; w < 4; w++ {
		wg.Add(1)
		go func() {
			defer wg.Done()
			e := eng.New("d") // one engine per worker; every history re-creates table t and uses fresh sessions
			for {
				i := int(next.Add(1)) - 1
				if i >= len(hs) {
					return
				}
				var res result
				if p := hx.Safe(func() { res.obs, res.fails, res.feats = runHist(e, hs[i]) }); p != "" {
					res = result{obs: "crash:" + p, feats: map[string]bool{}}
					e = eng.New("d")
				}
				results[i] = res
			}
		}()
	}
	wg.Wait()
	for i, h := range hs {
		obs, fails, feats := results[i].obs, results[i].fails, results[i].feats
		nontriv := feats["generated"] && (feats["explicit-above-counter"] || feats["delete"] || feats["failed-insert"] || feats["alter-lower"] || feats["alter-raise"] || feats["rewrite"])
		id := out.Case(h.payload(), obs, nontriv)
		out.Stat("type:" + h.ct.name)
		out.Stat("key:" + h.key)
		for f := range feats {
			out.Stat("feature:" + f)
		}
		out.StatN("statements", len(h.ops))
		seen := map[string]bool{}
		for _, f := range fails {
			if !seen[f[0]] { // one line per region and case is enough
				seen[f[0]] = true
				out.OracleFail(id, f[0], f[1])
				out.Stat("oracle-fail:" + f[0])
			}
		}
	}
	return nil
}
