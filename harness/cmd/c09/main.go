// C09 — Result values conform to the result schema.
//
//	extract: the bodies of IsNullable of the expression kinds the model covers (go/ast), whether
//	         JoinNode.Schema makes the null-supplying side nullable, and the value ranges the
//	         freshly compiled integer / text / decimal types accept (run-time dump).
//	run:     valid — real sql.Type.Convert/Compare ("accepted in range and unchanged") on boundary and
//	                 random values of every modelled type vs. the Lean `valid`;
//	         nul   — generated databases and query terms (harness/sqlgen, the shared SQL syntax):
//	                 the Nullable flags of the schema the engine reports vs. the Lean model of
//	                 IsNullable (`nullQ`); columns flagged NOT NULL that hold NULL are the property's
//	                 violations (regions outer_join_notnull / aggregate_notnull);
//	         col   — every result column of those statements and of a second, type-heavy stream
//	                 (narrow/unsigned integers, decimals, char types; arithmetic, CASE, COALESCE,
//	                 string functions, aggregates, UNION, CAST): the declared type with the returned
//	                 Go values, judged by the engine's own Convert (impl) and by `valid` (model).
//	         Model-free oracle: NOT NULL column holding NULL / value the declared type rejects.
//	         conv / gen / cv — conversions and text generalisation, see conv.go.
//
// Envelope: DIV / % are left out of the sqlgen stream (C25's regions); the type-heavy stream keeps
// out unsigned subtraction below zero and BIGINT overflow (C25: the wrapped value is then also
// outside the declared type), float formatting, temporal, JSON, enum/set, geometry and binary types.
package main

import (
	"fmt"
	"go/ast"
	"math"
	"os"
	"sort"
	"strconv"
	"strings"
	"unicode/utf8"

	"github.com/cockroachdb/apd/v3"
	"github.com/dolthub/vitess/go/sqltypes"

	"github.com/dolthub/go-mysql-server/sql"
	"github.com/dolthub/go-mysql-server/sql/types"
	"github.com/dolthub/go-mysql-server/verifharness/hx"
	"github.com/dolthub/go-mysql-server/verifharness/hx/eng"
	"github.com/dolthub/go-mysql-server/verifharness/sqlgen"
)

func main() {
	if len(os.Args) > 1 && os.Args[1] == "convtab" { // development aid: the real Convert on every target × source class
		convDump()
	}
	hx.Main(extract, run)
}

// ---------------------------------------------------------------------------------------------
// Facts.

var nullableSites = [][3]string{ // file, receiver, Lean name
	{"sql/expression/literal.go", "Literal", "Literal"},
	{"sql/expression/get_field.go", "GetField", "GetField"},
	{"sql/expression/common.go", "UnaryExpressionStub", "UnaryExpressionStub"},
	{"sql/expression/common.go", "BinaryExpressionStub", "BinaryExpressionStub"},
	{"sql/expression/comparison.go", "NullSafeEquals", "NullSafeEquals"},
	{"sql/expression/isnull.go", "IsNull", "IsNull"},
	{"sql/expression/istrue.go", "IsTrue", "IsTrue"},
	{"sql/expression/in.go", "InTuple", "InTuple"},
	{"sql/expression/between.go", "Between", "Between"},
	{"sql/expression/case.go", "Case", "Case"},
	{"sql/expression/function/coalesce.go", "Coalesce", "Coalesce"},
	{"sql/expression/function/ifnull.go", "IfNull", "IfNull"},
	{"sql/expression/function/if.go", "If", "If"},
	{"sql/plan/subquery.go", "Subquery", "Subquery"},
	{"sql/expression/function/aggregation/unary_aggs.og.go", "Sum", "Sum"},
	{"sql/expression/function/aggregation/unary_aggs.og.go", "Min", "Min"},
	{"sql/expression/function/aggregation/unary_aggs.og.go", "Max", "Max"},
	{"sql/expression/function/aggregation/unary_aggs.og.go", "Count", "Count"},
	{"sql/expression/function/aggregation/count_distinct.go", "CountDistinct", "CountDistinct"},
}

func oneLine(s string) string { return strings.Join(strings.Fields(s), " ") }

func extract(a hx.ExtractArgs) error {
	lf := hx.NewLeanFile("Gms.Generated.C09", "sql/expression/*.go", "sql/expression/function/{coalesce,ifnull,if}.go",
		"sql/expression/function/aggregation/unary_aggs.og.go", "sql/plan/subquery.go", "sql/plan/join.go", "sql/types (run-time)",
		"sql/expression/convert.go", "sql/types/conversion.go", "sql/types/strings.go", "sql/plan/set_op.go", "sql/planbuilder/set_op.go")
	lf.Comment("body of `IsNullable` per expression kind (whitespace-normalised source text)")
	var rows []string
	for _, s := range nullableSites {
		src, err := hx.ParseSrc(a.Repo, s[0])
		if err != nil {
			return err
		}
		fd, err := src.Func(s[1], "IsNullable")
		if err != nil {
			return err
		}
		body := oneLine(src.Text(fd.Body))
		rows = append(rows, fmt.Sprintf("  (%s, %s)", hx.LeanString(s[2]), hx.LeanString(body)))
	}
	lf.Raw("def isNullableBodies : List (String × String) := [\n" + strings.Join(rows, ",\n") + "]\n")

	// JoinNode.Schema: the cases that call makeNullable
	js, err := hx.ParseSrc(a.Repo, "sql/plan/join.go")
	if err != nil {
		return err
	}
	fd, err := js.Func("JoinNode", "Schema")
	if err != nil {
		return err
	}
	var cases []string
	ast.Inspect(fd.Body, func(n ast.Node) bool {
		cc, ok := n.(*ast.CaseClause)
		if !ok {
			return true
		}
		cond := "default"
		if len(cc.List) > 0 {
			cond = js.Text(cc.List[0])
		}
		body := ""
		for _, st := range cc.Body {
			body += oneLine(js.Text(st))
		}
		cases = append(cases, cond+" => "+body)
		return true
	})
	lf.DefStringList("joinSchemaCases", cases)
	// Project.Schema derives each column from the projection expression alone
	ps, err := hx.ParseSrc(a.Repo, "sql/plan/project.go")
	if err != nil {
		return err
	}
	pfd, err := ps.Func("Project", "Schema")
	if err != nil {
		return err
	}
	lf.DefBool("projectSchemaFromExpression", strings.Contains(ps.Text(pfd.Body), "transform.ExpressionToColumn(ctx, expr,"))

	// run-time: the range each integer type accepts, found by probing Convert around the bounds
	ctx := sql.NewEmptyContext()
	lf.Comment("(bits, unsigned, least accepted, greatest accepted) of the integer types, probed on the compiled types")
	var ir []string
	for _, it := range intTypes {
		lo, hi, err := probeRange(ctx, it.t, it.bits, it.unsigned)
		if err != nil {
			return fmt.Errorf("%s: %v", it.t.String(), err)
		}
		u := 0
		if it.unsigned {
			u = 1
		}
		ir = append(ir, fmt.Sprintf("  (%d, %d, %s, %s)", it.bits, u, leanBig(lo), leanBig(hi)))
	}
	lf.Raw("def intRanges : List (Nat × Nat × Int × Int) := [\n" + strings.Join(ir, ",\n") + "]\n")
	var tb []string
	for _, t := range []sql.StringType{types.TinyText, types.Text, types.MediumText, types.LongText} {
		tb = append(tb, fmt.Sprintf("(%s, %d)", hx.LeanString(t.String()), t.MaxByteLength()))
	}
	lf.Raw("def textMaxBytes : List (String × Nat) := [" + strings.Join(tb, ", ") + "]\n")
	lf.DefNat("decimalMaxPrecision", uint64(types.DecimalTypeMaxPrecision))
	lf.DefNat("decimalMaxScale", uint64(types.DecimalTypeMaxScale))
	lf.DefString("booleanType", types.Boolean.String())
	if err := extractConv(a, lf); err != nil {
		return err
	}
	return lf.Write(a.Out)
}

type intType struct {
	t        sql.Type
	bits     int
	unsigned bool
}

var intTypes = []intType{{types.Int8, 8, false}, {types.Uint8, 8, true}, {types.Int16, 16, false}, {types.Uint16, 16, true},
	{types.Int24, 24, false}, {types.Uint24, 24, true}, {types.Int32, 32, false}, {types.Uint32, 32, true},
	{types.Int64, 64, false}, {types.Uint64, 64, true}}

func leanBig(s string) string {
	if strings.HasPrefix(s, "-") {
		return "(" + s + ")"
	}
	return s
}

func accepts(ctx *sql.Context, t sql.Type, v interface{}) bool {
	ok := false
	hx.Safe(func() { ok = goValid(ctx, t, v) })
	return ok
}

// probeRange finds the least and greatest integer the type accepts, searching near ±2^k.
func probeRange(ctx *sql.Context, t sql.Type, bits int, unsigned bool) (string, string, error) {
	dec := func(s string) interface{} {
		d, _, err := apd.NewFromString(s)
		if err != nil {
			panic(err)
		}
		return d
	}
	cands := map[string]bool{}
	for k := 0; k <= 65; k++ {
		p := new(apd.BigInt).Exp(apd.NewBigInt(2), apd.NewBigInt(int64(k)), nil)
		for _, d := range []int64{-2, -1, 0, 1} {
			x := new(apd.BigInt).Add(p, apd.NewBigInt(d))
			cands[x.String()] = true
			cands[new(apd.BigInt).Neg(x).String()] = true
		}
	}
	var acc []*apd.BigInt
	for s := range cands {
		if accepts(ctx, t, dec(s)) {
			b, _ := new(apd.BigInt).SetString(s, 10)
			acc = append(acc, b)
		}
	}
	if len(acc) == 0 {
		return "", "", fmt.Errorf("no candidate accepted")
	}
	sort.Slice(acc, func(i, j int) bool { return acc[i].Cmp(acc[j]) < 0 })
	lo, hi := acc[0], acc[len(acc)-1]
	// the accepted candidates must be exactly those between lo and hi
	for s := range cands {
		b, _ := new(apd.BigInt).SetString(s, 10)
		in := b.Cmp(lo) >= 0 && b.Cmp(hi) <= 0
		if in != accepts(ctx, t, dec(s)) {
			return "", "", fmt.Errorf("accepted set is not an interval at %s", s)
		}
	}
	return lo.String(), hi.String(), nil
}

// ---------------------------------------------------------------------------------------------
// Types, cells, the engine's own validity verdict.

// describe renders a type as the model's RTy ("" = outside the model).
func describe(t sql.Type) string {
	switch tt := t.(type) {
	case sql.NumberType:
		switch tt.Type() {
		case sqltypes.Int8:
			return "(int 8 0)"
		case sqltypes.Uint8:
			return "(int 8 1)"
		case sqltypes.Int16:
			return "(int 16 0)"
		case sqltypes.Uint16:
			return "(int 16 1)"
		case sqltypes.Int24:
			return "(int 24 0)"
		case sqltypes.Uint24:
			return "(int 24 1)"
		case sqltypes.Int32:
			return "(int 32 0)"
		case sqltypes.Uint32:
			return "(int 32 1)"
		case sqltypes.Int64:
			return "(int 64 0)"
		case sqltypes.Uint64:
			return "(int 64 1)"
		case sqltypes.Float32, sqltypes.Float64:
			return "(dbl)"
		}
	case sql.DecimalType:
		return fmt.Sprintf("(dec %d %d)", tt.Precision(), tt.Scale())
	case sql.StringType:
		switch tt.Type() {
		case sqltypes.Char, sqltypes.VarChar:
			return fmt.Sprintf("(char %d)", tt.MaxCharacterLength())
		case sqltypes.Text:
			return fmt.Sprintf("(text %d)", tt.MaxByteLength())
		}
	}
	if t == types.Null {
		return "(null)"
	}
	return ""
}

// cellOf renders a returned Go value ("" = outside the model).
func cellOf(v interface{}) string {
	switch x := v.(type) {
	case nil:
		return "null"
	case int8:
		return fmt.Sprintf("(i %d)", x)
	case int16:
		return fmt.Sprintf("(i %d)", x)
	case int32:
		return fmt.Sprintf("(i %d)", x)
	case int64:
		return fmt.Sprintf("(i %d)", x)
	case int:
		return fmt.Sprintf("(i %d)", x)
	case uint8:
		return fmt.Sprintf("(i %d)", x)
	case uint16:
		return fmt.Sprintf("(i %d)", x)
	case uint32:
		return fmt.Sprintf("(i %d)", x)
	case uint64:
		return fmt.Sprintf("(i %d)", x)
	case uint:
		return fmt.Sprintf("(i %d)", x)
	case bool:
		if x {
			return "(b 1)"
		}
		return "(b 0)"
	case float64:
		if math.IsNaN(x) || math.IsInf(x, 0) {
			return ""
		}
		return "(f)"
	case float32:
		return "(f)"
	case string:
		if !utf8.ValidString(x) {
			return ""
		}
		return fmt.Sprintf("(s %d %d)", utf8.RuneCountInString(x), len(x))
	case *apd.Decimal:
		if x.Form != apd.Finite {
			return ""
		}
		c := new(apd.BigInt).Set(&x.Coeff)
		if x.Negative {
			c.Neg(c)
		}
		s := 0
		if x.Exponent > 0 {
			c.Mul(c, new(apd.BigInt).Exp(apd.NewBigInt(10), apd.NewBigInt(int64(x.Exponent)), nil))
		} else {
			s = int(-x.Exponent)
		}
		return fmt.Sprintf("(d %s %d)", c.String(), s)
	}
	return ""
}

func toDec(x interface{}) (*apd.Decimal, bool) {
	switch v := x.(type) {
	case int8:
		return apd.New(int64(v), 0), true
	case int16:
		return apd.New(int64(v), 0), true
	case int32:
		return apd.New(int64(v), 0), true
	case int64:
		return apd.New(v, 0), true
	case int:
		return apd.New(int64(v), 0), true
	case uint8:
		return apd.New(int64(v), 0), true
	case uint16:
		return apd.New(int64(v), 0), true
	case uint32:
		return apd.New(int64(v), 0), true
	case uint64:
		return apd.NewWithBigInt(new(apd.BigInt).SetUint64(v), 0), true
	case uint:
		return apd.NewWithBigInt(new(apd.BigInt).SetUint64(uint64(v)), 0), true
	case bool:
		if v {
			return apd.New(1, 0), true
		}
		return apd.New(0, 0), true
	case *apd.Decimal:
		return v, true
	}
	return nil, false
}

// sameValue: the converted value is the value that was returned (numerically / bytewise), judged
// independently of the type's own Compare (which converts both sides first).
func sameValue(conv, v interface{}) bool {
	a, oka := toDec(conv)
	b, okb := toDec(v)
	if oka && okb {
		return a.Cmp(b) == 0
	}
	switch c := conv.(type) {
	case string:
		s, ok := v.(string)
		return ok && s == c
	case float64:
		switch w := v.(type) {
		case float64:
			return w == c
		case float32:
			return float64(w) == c
		}
		if okb {
			f, err := b.Float64()
			return err == nil && f == c
		}
	case float32:
		switch w := v.(type) {
		case float32:
			return w == c
		case float64: // CAST(x AS FLOAT) hands out a float64 under the FLOAT type; floats are judged as numbers
			return float64(c) == w
		}
	}
	return false
}

// goValid: "v is a value of t" as the implementation's types decide it — Convert accepts v in
// range and the converted value is still v (not rounded, truncated or padded) — plus, for DECIMAL
// columns, no more fraction digits than the declared scale (what the column metadata announces).
func goValid(ctx *sql.Context, t sql.Type, v interface{}) bool {
	if v == nil {
		return true
	}
	if t == types.Null {
		return false
	}
	conv, inRange, err := t.Convert(ctx, v)
	if err != nil || inRange != sql.InRange {
		return false
	}
	if !sameValue(conv, v) {
		return false
	}
	if dt, ok := t.(sql.DecimalType); ok {
		if d, ok := v.(*apd.Decimal); ok && d.Exponent < 0 && int(-d.Exponent) > int(dt.Scale()) {
			return false
		}
	}
	return true
}

// ---------------------------------------------------------------------------------------------
// Unit stream: valid.

func decOf(s string) *apd.Decimal {
	d, _, err := apd.NewFromString(s)
	if err != nil {
		panic(err)
	}
	return d
}

func unitTypes() []sql.Type {
	ts := []sql.Type{types.Boolean, types.Float64, types.TinyText, types.Text, types.LongText, types.Null}
	for _, it := range intTypes {
		ts = append(ts, it.t)
	}
	for _, ps := range [][2]uint8{{1, 0}, {3, 0}, {3, 1}, {3, 3}, {5, 2}, {10, 0}, {10, 4}, {20, 6}, {65, 30}, {65, 0}, {38, 10}} {
		ts = append(ts, types.MustCreateDecimalType(ps[0], ps[1]))
	}
	for _, n := range []int64{0, 1, 3, 5, 16} {
		ts = append(ts, types.MustCreateString(sqltypes.VarChar, n, sql.Collation_Default))
		if n > 0 {
			ts = append(ts, types.MustCreateString(sqltypes.Char, n, sql.Collation_Default))
		}
	}
	return ts
}

func family(t sql.Type) string {
	switch {
	case t == types.Null:
		return "null"
	case types.IsText(t):
		return "str"
	}
	return "num"
}

func genNumber(r *hx.Rand) interface{} {
	switch r.Intn(10) {
	case 0, 1, 2: // around a power of two
		k := hx.Pick(r, []int{0, 7, 8, 15, 16, 23, 24, 31, 32, 63, 64})
		p := new(apd.BigInt).Exp(apd.NewBigInt(2), apd.NewBigInt(int64(k)), nil)
		p.Add(p, apd.NewBigInt(int64(r.Range(-2, 1))))
		if r.Bool() {
			p.Neg(p)
		}
		if p.IsInt64() {
			i := p.Int64()
			switch r.Intn(3) {
			case 0:
				return i
			case 1:
				if i >= 0 {
					return uint64(i)
				}
			}
			return i
		}
		if p.IsUint64() {
			return p.Uint64()
		}
		return decOf(p.String())
	case 3, 4: // around a power of ten, as decimal with a scale
		k := r.Range(0, 12)
		s := r.Range(0, 6)
		c := new(apd.BigInt).Exp(apd.NewBigInt(10), apd.NewBigInt(int64(k)), nil)
		c.Add(c, apd.NewBigInt(int64(r.Range(-1, 1))))
		d := apd.NewWithBigInt(c, int32(-s))
		d.Negative = r.Chance(1, 3) && c.Sign() != 0
		return d
	case 5:
		return r.Bool()
	case 6: // integral decimal with fraction zeros
		return apd.New(int64(r.Range(-300, 300))*100, -2)
	case 7:
		return apd.New(int64(r.Range(-99999, 99999)), int32(-r.Range(0, 5)))
	case 8:
		return int8(r.Range(-128, 127))
	}
	return int64(r.Range(-70000, 70000))
}

func genString(r *hx.Rand) string {
	alpha := []rune("aBé😀ß ")
	n := hx.Pick(r, []int{0, 1, 2, 3, 4, 5, 6, 15, 16, 17, 40, 254, 255, 256, 300})
	var b strings.Builder
	for i := 0; i < n; i++ {
		b.WriteRune(alpha[r.Intn(len(alpha))])
	}
	return b.String()
}

func unitCases(out *hx.Out, r *hx.Rand, n int) {
	ctx := sql.NewEmptyContext()
	ts := unitTypes()
	one := func(t sql.Type, v interface{}) {
		td, cd := describe(t), cellOf(v)
		if td == "" || cd == "" {
			panic(fmt.Sprintf("harness defect: type %s / value %T outside the model", t, v))
		}
		obs := ""
		p := hx.Safe(func() {
			if goValid(ctx, t, v) {
				obs = "1"
			} else {
				obs = "0"
			}
		})
		if p != "" {
			obs = "crash:" + p
		}
		out.Case(hx.List("valid", td, cd), obs, v != nil)
		out.Stat("valid:" + family(t))
	}
	// corpus
	one(types.Int8, int64(127))
	one(types.Int8, int64(128))
	one(types.Uint8, int64(-1))
	one(types.Uint64, uint64(math.MaxUint64))
	one(types.Int64, uint64(math.MaxUint64))
	one(types.MustCreateDecimalType(3, 1), decOf("99.9"))
	one(types.MustCreateDecimalType(3, 1), decOf("100.0"))
	one(types.MustCreateDecimalType(3, 1), decOf("9.99"))
	one(types.MustCreateString(sqltypes.VarChar, 3, sql.Collation_Default), "ééé")
	one(types.MustCreateString(sqltypes.VarChar, 3, sql.Collation_Default), "abcd")
	one(types.Null, int64(1))
	one(types.Boolean, true)
	for i := 0; i < n; i++ {
		t := hx.Pick(r, ts)
		var v interface{}
		switch {
		case r.Chance(1, 12):
			v = nil
		case family(t) == "str":
			v = genString(r)
		case family(t) == "null":
			v = int64(r.Range(-1, 1))
		default:
			v = genNumber(r)
			if f, ok := t.(sql.NumberType); ok && (f.Type() == sqltypes.Float64) {
				// doubles: only integers that are exact and bools (the Compare after Convert is exact there)
				switch x := v.(type) {
				case *apd.Decimal:
					v = int64(r.Range(-1000, 1000))
					_ = x
				case uint64:
					if x > 1<<53 {
						v = int64(7)
					}
				case int64:
					if x > 1<<53 || x < -(1<<53) {
						v = int64(-7)
					}
				}
			}
		}
		one(t, v)
	}
}

// ---------------------------------------------------------------------------------------------
// Statement streams.

type stmtRunner struct {
	out *hx.Out
	ctx *sql.Context
}

// valueClass names why the type rejects the value (same classes as Gms.ResultType.valueClass).
func valueClass(t sql.Type, v interface{}) string {
	d, isNum := toDec(v)
	switch tt := t.(type) {
	case sql.NumberType:
		if !isNum {
			return "kind_mismatch"
		}
		if types.IsFloat(t) {
			return "kind_mismatch"
		}
		if types.IsUnsigned(t) && d.Negative && !d.IsZero() {
			bits := 0
			switch tt.Type() {
			case sqltypes.Uint8:
				bits = 8
			case sqltypes.Uint16:
				bits = 16
			case sqltypes.Uint24:
				bits = 24
			case sqltypes.Uint32:
				bits = 32
			case sqltypes.Uint64:
				bits = 64
			}
			return fmt.Sprintf("u%d_negative", bits)
		}
		var i apd.Decimal
		if _, err := apd.BaseContext.RoundToIntegralValue(&i, d); err == nil && i.Cmp(d) != 0 {
			return "fraction_in_integer"
		}
		return "int_out_of_range"
	case sql.DecimalType:
		if !isNum {
			return "kind_mismatch"
		}
		if x, ok := v.(*apd.Decimal); ok && x.Exponent < 0 && int(-x.Exponent) > int(tt.Scale()) {
			return "decimal_scale"
		}
		return "decimal_precision"
	case sql.StringType:
		if _, ok := v.(string); ok {
			return "string_too_long"
		}
		return "kind_mismatch"
	}
	return "kind_mismatch"
}

// columns emits one `col` case per result column and the model-free oracle. feats[j] names the
// kind of expression that produced column j (part of the region of a rejected value).
func (s *stmtRunner) columns(res *eng.Res, text string, feats []string) {
	for j, c := range res.Schema {
		td := describe(c.Type)
		if td == "" {
			s.out.Stat("col:type-outside-model")
			continue
		}
		feat := "sqlgen"
		if j < len(feats) {
			feat = feats[j]
		}
		cells := make([]string, 0, len(res.Raw))
		var bad []string
		class := ""
		ok := true
		for i, row := range res.Raw {
			if j >= len(row) {
				ok = false
				break
			}
			cd := cellOf(row[j])
			if cd == "" {
				ok = false
				break
			}
			cells = append(cells, cd)
			valid := false
			p := hx.Safe(func() { valid = goValid(s.ctx, c.Type, row[j]) })
			if p != "" || !valid {
				bad = append(bad, strconv.Itoa(i))
				if class == "" {
					class = valueClass(c.Type, row[j])
				}
			}
		}
		if !ok {
			s.out.Stat("col:value-outside-model")
			continue
		}
		obs := "ok"
		if len(bad) > 0 {
			obs = "bad " + strings.Join(bad, " ")
		}
		id := s.out.Case(hx.List("col", td, "("+strings.Join(cells, " ")+")", feat), obs, len(cells) > 0)
		s.out.Stat("col")
		if len(bad) > 0 {
			s.out.OracleFail(id, class+"_"+feat, fmt.Sprintf("column %d (%s %s) of %s holds a value its type rejects (row %s)", j, c.Name, c.Type, text, bad[0]))
			s.out.Stat("col:" + class + "_" + feat)
		}
	}
}

// featOf names the kind of a select item of the type-heavy stream.
func featOf(e string) string {
	e = strings.TrimSpace(e)
	switch {
	case strings.HasPrefix(e, "CASE"):
		return "case"
	case strings.HasPrefix(e, "NOT "):
		return "logic"
	case strings.HasPrefix(e, "-") && !strings.ContainsAny(e[1:2], "0123456789"):
		return "neg"
	}
	if i := strings.Index(e, "("); i > 0 && strings.HasSuffix(e, ")") && !strings.ContainsAny(e[:i], " +-*/") {
		rest := e[i:]
		depth, closedAt := 0, -1
		for k, ch := range rest {
			if ch == '(' {
				depth++
			}
			if ch == ')' {
				depth--
				if depth == 0 {
					closedAt = k
					break
				}
			}
		}
		if closedAt == len(rest)-1 {
			return strings.ToLower(e[:i])
		}
	}
	for _, op := range []string{" / ", " DIV ", " % "} {
		if strings.Contains(e, op) {
			return "div"
		}
	}
	for _, op := range []string{" + ", " - ", " * "} {
		if strings.Contains(e, op) {
			return "arith"
		}
	}
	for _, op := range []string{" = ", " > ", " IS ", " AND ", " IN ", " LIKE ", " BETWEEN "} {
		if strings.Contains(e, op) {
			return "logic"
		}
	}
	if len(e) > 0 && (e[0] == '\'' || e[0] == '-' || (e[0] >= '0' && e[0] <= '9')) || e == "NULL" || e == "TRUE" {
		return "lit"
	}
	return "column"
}

func nullCols(res *eng.Res) []int {
	var out []int
	for j := range res.Schema {
		for _, row := range res.Raw {
			if j < len(row) && row[j] == nil {
				out = append(out, j)
				break
			}
		}
	}
	return out
}

func flagsOf(res *eng.Res) string {
	var b strings.Builder
	for _, c := range res.Schema {
		if c.Nullable {
			b.WriteByte('1')
		} else {
			b.WriteByte('0')
		}
	}
	return b.String()
}

func hasOuterJoin(q *sqlgen.Query) bool {
	if q == nil {
		return false
	}
	if q.Op == "join" && q.Kind != "inner" {
		return true
	}
	return hasOuterJoin(q.L) || hasOuterJoin(q.R)
}

func hasSetop(q *sqlgen.Query) bool {
	if q == nil {
		return false
	}
	return q.Op == "setop" || hasSetop(q.L) || hasSetop(q.R)
}

func hasAgg(q *sqlgen.Query) bool {
	if q == nil {
		return false
	}
	if q.Op == "group" {
		for _, f := range q.Fns {
			if f == "sum" || f == "min" || f == "max" {
				return true
			}
		}
	}
	return hasAgg(q.L) || hasAgg(q.R)
}

func nnSexp(db *sqlgen.Db) string {
	parts := []string{"nn"}
	for _, t := range db.Tables {
		fs := make([]string, len(t.NotNull))
		for i, nn := range t.NotNull {
			if nn {
				fs[i] = "0"
			} else {
				fs[i] = "1"
			}
		}
		parts = append(parts, "("+strings.Join(fs, " ")+")")
	}
	return "(" + strings.Join(parts, " ") + ")"
}

func (s *stmtRunner) sqlgenCase(e *eng.Eng, ectx *sql.Context, db *sqlgen.Db, q *sqlgen.Query, p *sqlgen.Printer) {
	text := p.SQL(q)
	res := e.Query(ectx, text)
	if res.Class() != "ok" {
		s.out.Stat("nul:engine-" + res.Class())
		return
	}
	nc := nullCols(res)
	var bad []string
	for _, j := range nc {
		if !res.Schema[j].Nullable {
			bad = append(bad, strconv.Itoa(j))
		}
	}
	ncs := make([]string, len(nc))
	for i, j := range nc {
		ncs[i] = strconv.Itoa(j)
	}
	tag := "-"
	switch {
	case hasOuterJoin(q):
		tag = "outer_join_notnull"
	case hasAgg(q):
		tag = "aggregate_notnull"
	}
	if hasSetop(q) {
		// When the two sides of a set operation have different engine types the planbuilder wraps them
		// in Convert expressions, some of which are always nullable (sql/planbuilder/set_op.go
		// mergeSetOpSchemas); the flag model has no engine types, so such statements are checked by the
		// model-free oracle only.
		s.out.Stat("nul:setop-oracle-only")
		if len(bad) > 0 {
			id := s.out.Case(hx.List("stmt", hx.HexS(text), bad[0]), "notnull-null", true)
			s.out.OracleFail(id, tag, fmt.Sprintf("column(s) %s reported NOT NULL hold NULL: %s", strings.Join(bad, ","), text))
			s.out.Stat("nul:notnull-violated")
		}
		feats := make([]string, len(res.Schema))
		for i := range feats {
			feats[i] = "setop"
		}
		s.columns(res, text, feats)
		return
	}
	obs := "flags=" + flagsOf(res) + " bad=" + strings.Join(bad, " ")
	payload := fmt.Sprintf("(nul %s (q %s) (nullcols %s) (sql %s))", nnSexp(db), q.Sexp(), strings.Join(ncs, " "), hx.HexS(text))
	id := s.out.Case(payload, obs, len(res.Rows) > 0 && len(nc) > 0)
	s.out.Stat("nul")
	if len(bad) > 0 {
		s.out.OracleFail(id, tag, fmt.Sprintf("column(s) %s reported NOT NULL hold NULL: %s", strings.Join(bad, ","), text))
		s.out.Stat("nul:notnull-violated")
	}
	s.columns(res, text, nil)
}

// ---- second stream: type-heavy statements over one table of narrow / unsigned / decimal / char columns

type tcol struct {
	name, ddl string
	gen       func(r *hx.Rand) string // SQL literal
}

func intLit(lo, hi int64) func(r *hx.Rand) string {
	return func(r *hx.Rand) string {
		switch r.Intn(6) {
		case 0:
			return strconv.FormatInt(lo, 10)
		case 1:
			return strconv.FormatInt(hi, 10)
		}
		span := hi - lo
		if span > 2000 || span < 0 {
			return strconv.FormatInt(int64(r.Range(-20, 20))+boundClamp(lo, hi), 10)
		}
		return strconv.FormatInt(lo+int64(r.Intn(int(span)+1)), 10)
	}
}

func boundClamp(lo, hi int64) int64 {
	if lo > -20 {
		return lo + 20
	}
	return 0
}

var tcols = []tcol{
	{"a", "TINYINT", intLit(-128, 127)},
	{"b", "SMALLINT UNSIGNED", intLit(0, 65535)},
	{"c", "INT", intLit(-2147483648, 2147483647)},
	{"d", "BIGINT", intLit(-1000000000000, 1000000000000)},
	{"e", "DECIMAL(10,2)", func(r *hx.Rand) string {
		return hx.Pick(r, []string{"0.00", "1.50", "-1.25", "99999999.99", "-99999999.99", "12.30", "7.00"})
	}},
	{"f", "VARCHAR(5)", func(r *hx.Rand) string {
		return "'" + hx.Pick(r, []string{"", "a", "ab", "abcde", "éé", "A b", "12", "x"}) + "'"
	}},
	{"g", "CHAR(3)", func(r *hx.Rand) string { return "'" + hx.Pick(r, []string{"", "a", "abc", "é"}) + "'" }},
	{"h", "INT NOT NULL", intLit(-100, 100)},
	{"u", "INT UNSIGNED", intLit(0, 4294967295)},
}

var typeExprs = []string{
	"a", "b", "c", "d", "e", "f", "g", "h", "u",
	"-u", "-d", "u + u", "b + u", "u * 2", "a + 1", "a + b", "a * a", "b * b", "c + c", "c * 2", "d + 1", "a - b", "h - 1", "-a", "-b", "-c", "-e",
	"e + 1", "e * e", "e / 3", "e + a", "a / 2", "b / 7", "h / h",
	"a = b", "e > 1", "f = 'a'", "a IS NULL", "NOT a", "a AND b", "a IN (1, 2)", "f LIKE 'a%'", "a BETWEEN 0 AND 5",
	"CASE WHEN a > 0 THEN a ELSE b END", "CASE WHEN a > 0 THEN a ELSE e END", "CASE WHEN a > 0 THEN f ELSE g END", "CASE WHEN a > 0 THEN a END",
	"IF(a > 0, b, c)", "IF(a > 0, f, 'zzzzzzzz')", "IFNULL(a, b)", "IFNULL(a, 300)", "IFNULL(f, 'long string here')", "COALESCE(a, b, c)", "COALESCE(a, e)", "COALESCE(f, g)", "NULLIF(a, 1)", "NULLIF(h, 1)",
	"CONCAT(f, g)", "CONCAT(f, 'xyz', f)", "UPPER(f)", "LOWER(g)", "LENGTH(f)", "CHAR_LENGTH(f)", "LEFT(f, 2)", "SUBSTRING(f, 2)", "TRIM(f)", "REPEAT(f, 3)", "REVERSE(f)", "LPAD(f, 8, 'x')", "REPLACE(f, 'a', 'bbbb')",
	"ABS(a)", "ABS(c)", "SIGN(a)", "ROUND(e)", "ROUND(e, 1)", "GREATEST(a, b)", "LEAST(a, c)", "GREATEST(a, e)", "MOD(c, 7)", "a DIV 2", "c % 3",
	"CAST(a AS SIGNED)", "CAST(h AS UNSIGNED)", "CAST(a AS CHAR)", "CAST(f AS CHAR(2))", "CAST(e AS DECIMAL(5,1))", "CAST(c AS DECIMAL(12,2))", "CAST(a AS DOUBLE)",
	"1", "127", "128", "255", "256", "32768", "65536", "2147483648", "4294967296", "-129", "1.5", "0.001", "'lit'", "NULL", "TRUE",
}

// (FLOOR(e) / CEIL(e) over a DECIMAL column are kept out: they round the *apd.Decimal of the stored
// row in place, i.e. a SELECT changes the table — observed defect of C11/C13's subject; it would
// also make this generator's table drift.)
var aggExprs = []string{"COUNT(*)", "COUNT(a)", "SUM(a)", "SUM(b)", "SUM(e)", "AVG(a)", "AVG(e)", "MIN(a)", "MAX(b)", "MIN(e)", "MAX(f)", "MIN(g)", "MAX(h)", "SUM(h)", "COUNT(DISTINCT a)",
	"SUM(a) + 1", "MAX(a) - MIN(a)", "GROUP_CONCAT(f)", "BIT_AND(a)", "BIT_OR(b)", "ANY_VALUE(c)"}

func (s *stmtRunner) typeStream(r *hx.Rand, n int) error {
	e := eng.New("d")
	ctx := e.Ctx()
	var ddl []string
	for _, c := range tcols {
		ddl = append(ddl, c.name+" "+c.ddl)
	}
	e.MustExec(ctx, "CREATE TABLE w (pk INT PRIMARY KEY, "+strings.Join(ddl, ", ")+")", "CREATE TABLE z (pk INT PRIMARY KEY, a TINYINT, f VARCHAR(9))",
		"INSERT INTO z VALUES (1, 1, 'abcdefghi'), (2, NULL, NULL), (3, -128, '')")
	refill := func() error {
		e.MustExec(ctx, "DELETE FROM w")
		rows := r.Range(0, 6)
		for i := 0; i < rows; i++ {
			vals := []string{strconv.Itoa(i + 1)}
			for _, c := range tcols {
				if !strings.Contains(c.ddl, "NOT NULL") && r.Chance(1, 5) {
					vals = append(vals, "NULL")
				} else {
					vals = append(vals, c.gen(r))
				}
			}
			q := "INSERT INTO w VALUES (" + strings.Join(vals, ", ") + ")"
			if res := e.Query(ctx, q); res.Class() != "ok" {
				return fmt.Errorf("harness defect: %s: %v", q, res.Err)
			}
		}
		return nil
	}
	exec := func(text string, feats []string) {
		res := e.Query(e.Ctx(), text)
		if res.Class() != "ok" {
			s.out.Stat("type:engine-" + res.Class())
			return
		}
		s.out.Stat("type:statements")
		// NOT NULL oracle (model-free)
		for _, j := range nullCols(res) {
			if !res.Schema[j].Nullable {
				tag := "notnull_holds_null"
				switch {
				case strings.Contains(text, "LEFT JOIN"):
					tag = "outer_join_notnull"
				case strings.Contains(text, "SUM(") || strings.Contains(text, "MIN(") || strings.Contains(text, "MAX("):
					tag = "aggregate_notnull"
				}
				id := s.out.Case(hx.List("stmt", hx.HexS(text), strconv.Itoa(j)), "notnull-null", true)
				s.out.OracleFail(id, tag, fmt.Sprintf("column %d (%s) reported NOT NULL holds NULL: %s", j, res.Schema[j].Type, text))
				s.out.Stat("type:" + tag)
			}
		}
		s.columns(res, text, feats)
	}
	// corpus: the witnesses of the listed findings first
	e.MustExec(ctx, "INSERT INTO w VALUES (1, 1, 5, 1, 1, 99999999.99, 'a', 'a', 0, 0)")
	for _, c := range []struct {
		text  string
		feats []string
	}{
		{"SELECT -b FROM w", []string{"neg"}},
		{"SELECT e + 1 FROM w", []string{"arith"}},
		{"SELECT e * e FROM w", []string{"arith"}},
		{"SELECT ROUND(e, 1) FROM w", []string{"round"}},
		{"SELECT e + 1 FROM w UNION ALL SELECT e + 1 FROM w", []string{"union"}},
		{"SELECT -b FROM w UNION SELECT b FROM w", []string{"union"}},
		{"SELECT SUM(a), MIN(h), MAX(f) FROM w WHERE pk < 0", []string{"sum", "min", "max"}},
		{"SELECT w.a, z.pk FROM w LEFT JOIN z ON w.a = z.a AND z.pk > 5", []string{"column", "column"}},
		{"SELECT d.x FROM (SELECT SUM(a) AS x FROM w UNION ALL SELECT c FROM w) d", []string{"setop"}},
	} {
		exec(c.text, c.feats)
		s.out.Stat("type:corpus")
	}
	for i := 0; i < n; i++ {
		if i%8 == 0 {
			if err := refill(); err != nil {
				return err
			}
		}
		var text string
		var feats []string
		switch r.Intn(8) {
		case 0, 1, 2, 3:
			k := r.Range(1, 4)
			var es []string
			for j := 0; j < k; j++ {
				x := hx.Pick(r, typeExprs)
				es = append(es, x)
				feats = append(feats, featOf(x))
			}
			text = "SELECT " + strings.Join(es, ", ") + " FROM w"
			if r.Chance(1, 4) {
				text += " WHERE a > 0"
			}
		case 4:
			k := r.Range(1, 3)
			var es []string
			for j := 0; j < k; j++ {
				x := hx.Pick(r, aggExprs)
				es = append(es, x)
				feats = append(feats, featOf(x))
			}
			text = "SELECT " + strings.Join(es, ", ") + " FROM w"
			switch r.Intn(3) {
			case 0:
				text += " GROUP BY h"
			case 1:
				text += " WHERE pk < 0"
			}
		case 5:
			x, y := hx.Pick(r, typeExprs), hx.Pick(r, typeExprs)
			text = "SELECT " + x + " FROM w " + hx.Pick(r, []string{"UNION", "UNION ALL"}) + " SELECT " + y + " FROM w"
			feats = []string{"union"}
		case 6:
			x := hx.Pick(r, typeExprs)
			text = "SELECT w.a, z.a, z.f, " + x + " FROM w " + hx.Pick(r, []string{"LEFT JOIN", "JOIN"}) + " z ON w.a = z.a"
			feats = []string{"column", "column", "column", featOf(x)}
		default:
			x := hx.Pick(r, typeExprs)
			text = "SELECT x FROM (SELECT " + x + " AS x FROM w) dt"
			feats = []string{featOf(x)}
		}
		exec(text, feats)
	}
	return nil
}

func run(a hx.RunArgs) error {
	out := hx.NewOut(a.OutDir)
	defer out.Close()
	out.Rule = "valid: every modelled type (10 integer types, BOOLEAN, 11 DECIMAL(p,s), DOUBLE, VARCHAR/CHAR(n), TINYTEXT/TEXT/LONGTEXT, NULL) with values around " +
		"2^k and 10^k, decimals of scale 0-6, multi-byte strings of lengths around the limits — non-trivial when the value is not NULL; " +
		"nul/col: sqlgen databases (1-3 tables, NOT NULL flags, NULLs) and query terms (depth <=4: joins incl. outer, GROUP BY, set operations, subqueries, " +
		"CASE/COALESCE …) plus a type-heavy stream (narrow/unsigned/decimal/char columns × 110 expressions × aggregates/UNION/LEFT JOIN/derived table) — " +
		"non-trivial when the result has rows (nul: and some column holds a NULL); " +
		"conv: the real expression.Convert, 14 targets × ~250 input values (numbers, text of 8 shapes × 4 character sets, byte strings valid/invalid as UTF-8 from VARBINARY/BINARY/BLOB of 0..12 bytes, " +
		"temporal values) × child flag; gen: the real types.GeneralizeTypes on pairs of 120 text types (CHAR/VARCHAR(n), TINYTEXT..LONGTEXT × utf8mb4/latin1/utf8mb3/utf16/ascii) with the longest values of both operands; " +
		"cv: CAST/CONVERT of 17 columns (binary, blob, multi-charset text, numeric, temporal; NOT NULL and nullable) to every target, UNION [ALL] of column pairs directly and under a derived table, " +
		"CASE/IF/IFNULL/derived UNION/COALESCE/CONCAT over 16 text columns of 5 character sets holding their longest values — always non-trivial"
	r := hx.NewRand(a.Seed).Fork()
	nUnit, nDb, perDb, nType := 8000, 40, 10, 500
	if a.Thorough {
		nUnit, nDb, perDb, nType = 400000, 4000, 14, 150000
	}
	unitCases(out, r.Fork(), nUnit)

	s := &stmtRunner{out: out, ctx: sql.NewEmptyContext()}
	cfg := sqlgen.Default()
	g := sqlgen.NewGen(r.Fork(), cfg)
	rq := r.Fork()
	for i := 0; i < nDb; i++ {
		db := g.GenDb()
		e := eng.New("d")
		ectx := e.Ctx()
		e.MustExec(ectx, db.Setup()...)
		for k := 0; k < perDb; k++ {
			q, tys := g.Query(rq.Range(1, 4))
			if rq.Chance(1, 4) {
				q = g.OrderLimit(q, tys, rq.Chance(1, 3))
			}
			p := &sqlgen.Printer{Db: db, NoFuse: rq.Chance(1, 10), CTE: rq.Chance(1, 8)}
			s.sqlgenCase(e, ectx, db, q, p)
		}
	}
	for k, v := range g.Stats {
		out.StatN("gen:"+k, v)
	}
	if err := s.typeStream(r.Fork(), nType); err != nil {
		return err
	}
	// conversions and text generalisation (conv.go); own random stream: the older streams keep their samples
	rc := hx.NewRand(a.Seed*1000003 + 9).Fork()
	convCases(out, rc.Fork())
	nGen := 1200
	genCases(out, rc.Fork(), nGen, a.Thorough)
	return s.convStream(rc.Fork(), a.Thorough)
}
