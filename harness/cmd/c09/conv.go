// C09 — conversions (expression.Convert) and text generalisation (types.GeneralizeTypes).
//
//	conv  — unit stream on the real expression.Convert: every target × every source class (numbers, text of
//	        several shapes and character sets, byte strings valid / invalid as UTF-8, from VARBINARY and from
//	        BLOB, of 0 / 1-8 / >8 bytes, temporal values) × child flag: the reported IsNullable and whether Eval
//	        returned NULL, vs. the Lean `nullConv` / `convNull` (Gms/Model/ConvType.lean).
//	gen   — unit stream on the real types.GeneralizeTypes over pairs of text types (CHAR/VARCHAR(n)/TINYTEXT…
//	        LONGTEXT × 5 character sets): which operand is returned (`gpick`) and whether the returned type
//	        accepts the longest values of both operands (`gcov`, judged by the real Type.Convert), vs. the Lean
//	        `generalizeText` / `covers`.
//	cv    — statements over a table of binary / multi-charset / temporal columns: CAST / CONVERT of every
//	        column to every target, UNION / UNION ALL of columns of different types (implicit Convert, also
//	        under a derived table), CASE / IF / IFNULL / COALESCE over text columns of different character
//	        sets and lengths. Reported flags and declared types against the models, values against the
//	        declared type (engine's Convert) and the NOT NULL flag (model-free).
//
// Envelope (observed on the unchanged tree, kept out with reason):
//   - single-byte character sets hold ASCII only: Type.Convert of a latin1/ascii CHAR/VARCHAR counts the UTF-8
//     bytes of the internal string (a 10-character 'é…' value is "too large" for VARCHAR(10) latin1) — the
//     judge's own defect, subject of C28/C10;
//   - binary operands of CASE / IF / IFNULL: GeneralizeTypes sends VARBINARY × VARCHAR through the text branch,
//     the []byte value falls back unconverted into a VARCHAR column (value outside the cell model);
//   - CONVERT(x USING cs): a different expression (ConvertUsing); over a hex literal it is declared longblob
//     and returns a Go string;
//   - CAST(x AS YEAR) of a negative number returns the uint64 complement under the YEAR type (type outside
//     the value model; only the NOT NULL flag is judged);
//   - GetConvertToType(Null, Null) recurses without end — unreachable from mergeSetOpSchemas (equal types).
package main

import (
	"fmt"
	"go/ast"
	"go/token"
	"os"
	"strconv"
	"strings"
	"time"

	"github.com/dolthub/vitess/go/sqltypes"
	"github.com/dolthub/vitess/go/vt/proto/query"

	"github.com/dolthub/go-mysql-server/sql"
	"github.com/dolthub/go-mysql-server/sql/expression"
	"github.com/dolthub/go-mysql-server/sql/types"
	"github.com/dolthub/go-mysql-server/verifharness/hx"
	"github.com/dolthub/go-mysql-server/verifharness/hx/eng"
)

// convTargets: the castToType constants of sql/expression/convert.go, in the model's order.
var convTargets = []string{
	expression.ConvertToBinary, expression.ConvertToChar, expression.ConvertToNChar, expression.ConvertToDate,
	expression.ConvertToDatetime, expression.ConvertToDecimal, expression.ConvertToFloat, expression.ConvertToDouble,
	expression.ConvertToReal, expression.ConvertToJSON, expression.ConvertToSigned, expression.ConvertToTime,
	expression.ConvertToUnsigned, expression.ConvertToYear,
}

// csrc is one source of a conversion: a Go value as a column of type typ would hold it, and the
// class the model sees.
type csrc struct {
	typ  sql.Type
	val  interface{}
	sexp string // (num small|big) | (text SHAPE CS) | (bytes HEX BLOB SHAPE) | (temporal date|datetime|time)
}

func strType(base query.Type, n int64, coll sql.CollationID) sql.Type {
	return types.MustCreateString(base, n, coll)
}

func convDump() {
	ctx := sql.NewEmptyContext()
	srcs := convSources(nil)
	fmt.Printf("%-52s", "source")
	for _, t := range convTargets {
		fmt.Printf(" %-8s", t)
	}
	fmt.Println()
	for _, s := range srcs {
		fmt.Printf("%-52s", s.sexp)
		for _, t := range convTargets {
			fmt.Printf(" %-8s", convObs(ctx, t, s, false))
		}
		fmt.Println()
	}
	os.Exit(0)
}

// convObs runs the real Convert over a one-column row: "f<flag> n<null>" | "err" | crash.
func convObs(ctx *sql.Context, target string, s csrc, childNullable bool) string {
	obs := ""
	p := hx.Safe(func() {
		c := expression.NewConvert(expression.NewGetField(0, s.typ, "c", childNullable), target)
		flag := 0
		if c.IsNullable(ctx) {
			flag = 1
		}
		v, err := c.Eval(ctx, sql.Row{s.val})
		switch {
		case err != nil:
			obs = "err"
		case v == nil:
			obs = fmt.Sprintf("f%d n1", flag)
		default:
			obs = fmt.Sprintf("f%d n0", flag)
		}
	})
	if p != "" {
		return "crash"
	}
	return obs
}

var (
	collU4  = sql.Collation_utf8mb4_0900_ai_ci
	collL1  = sql.Collation_latin1_swedish_ci
	collU3  = sql.Collation_utf8mb3_general_ci
	collU16 = sql.Collation_utf16_general_ci
	collAsc = sql.Collation_ascii_general_ci
)

// text shapes: what the value parses as (decided by construction, never by the code under test)
var textShapes = []struct{ shape, val string }{
	{"date", "2020-01-31"}, {"date", "1999-12-01"},
	{"datetime", "2020-01-31 10:11:12"},
	{"time", "10:11:12"}, {"time", "-01:02:03"},
	{"num", "15"}, {"num", "2020"}, {"num", "-3"},
	{"junk", "abc"}, {"junk", "x1y"}, {"junk", "é😀"},
	{"empty", ""},
	{"json", "{\"a\": 1}"}, {"json", "[1, 2]"},
}

func convSources(r *hx.Rand) []csrc {
	var out []csrc
	dec := decOf("1.50")
	out = append(out,
		// small: a valid hhmmss (|hours| <= 838, minutes and seconds < 60); big: not
		csrc{types.Int64, int64(5), "(num small)"}, csrc{types.Int64, int64(-7), "(num small)"}, csrc{types.Int64, int64(1234), "(num small)"},
		csrc{types.Int64, int64(20200131), "(num big)"}, csrc{types.Int64, int64(99999999), "(num big)"}, csrc{types.Uint32, uint32(4000000000), "(num big)"},
		csrc{types.Uint8, uint8(200), "(num small)"}, csrc{types.Int8, int8(0), "(num small)"},
		csrc{types.MustCreateDecimalType(10, 2), dec, "(num small)"}, csrc{types.Float64, float64(2.5), "(num small)"},
		csrc{types.Boolean, int8(1), "(num small)"},
	)
	for _, ts := range textShapes {
		for _, ty := range []struct {
			cs string
			t  sql.Type
		}{
			{"u4", strType(sqltypes.VarChar, 40, collU4)}, {"u4", types.Text}, {"l1", strType(sqltypes.VarChar, 40, collL1)},
			{"u16", strType(sqltypes.Char, 40, collU16)},
		} {
			shape := ts.shape
			if ts.val == "é😀" && ty.cs == "l1" {
				shape = "unenc" // not encodable in the origin character set
			}
			out = append(out, csrc{ty.t, ts.val, fmt.Sprintf("(text %s %s)", shape, ty.cs)})
		}
	}
	bvals := []struct {
		shape string
		b     []byte
	}{
		{"date", []byte("2020-01-31")}, {"datetime", []byte("2020-01-31 10:11:12")}, {"time", []byte("10:11:12")},
		{"num", []byte("15")}, {"junk", []byte("abc")}, {"junk", []byte("abcdefghi")}, {"empty", []byte{}},
		{"junk", []byte{0xff, 0x41}}, {"junk", []byte{0xc3}}, {"junk", []byte{0x41, 0xe2, 0x82}}, {"junk", []byte{0xff, 0x41, 0xff, 0x41, 0xff, 0x41, 0xff, 0x41, 0xff}},
		{"junk", []byte{0x00}}, {"junk", []byte("é😀")}, {"junk", []byte{0xed, 0xa0, 0x80}},
		// a BLOB is read as a hexadecimal number by the numeric targets: leading zero bytes do not count
		{"junk", []byte{0, 0, 0, 0, 0, 0, 0, 0, 0xff}}, {"junk", []byte{0, 0xff, 0x41, 0xff, 0x41, 0xff, 0x41, 0xff, 0x41, 0xff}}, {"junk", []byte{0, 0, 0, 0, 0, 0, 0, 0, 0, 0}},
	}
	if r != nil {
		for i := 0; i < 24; i++ {
			n := hx.Pick(r, []int{1, 2, 3, 4, 7, 8, 9, 12})
			b := make([]byte, n)
			for k := range b {
				b[k] = byte(hx.Pick(r, []int{0x41, 0x7a, 0x80, 0xbf, 0xc3, 0xa9, 0xe2, 0x82, 0xac, 0xf0, 0x9f, 0x98, 0x80, 0xff, 0xed, 0xa0, 0x00, 0x20}))
			}
			for k := 0; k < n && r.Chance(1, 3); k++ {
				b[k] = 0
			}
			// never date-, time- or number-like: the pool has no digits
			bvals = append(bvals, struct {
				shape string
				b     []byte
			}{"junk", b})
		}
	}
	for _, bv := range bvals {
		for _, ty := range []struct {
			blob int
			t    sql.Type
		}{{0, strType(sqltypes.VarBinary, 40, sql.Collation_binary)}, {1, types.Blob}, {0, strType(sqltypes.Binary, 12, sql.Collation_binary)}} {
			b := bv.b
			if ty.t.Type() == sqltypes.Binary {
				if len(b) > 12 {
					continue
				}
				// a BINARY(12) column stores the value right-padded with 0x00
				b = append(append([]byte{}, b...), make([]byte, 12-len(b))...)
				if bv.shape != "junk" {
					continue
				}
			}
			out = append(out, csrc{ty.t, b, fmt.Sprintf("(bytes %s %d %s)", hx.Hex(b), ty.blob, bv.shape)})
		}
	}
	d := time.Date(2020, 1, 31, 0, 0, 0, 0, time.UTC)
	dt := time.Date(2020, 1, 31, 10, 11, 12, 0, time.UTC)
	out = append(out,
		csrc{types.Date, d, "(temporal date)"}, csrc{types.DatetimeMaxPrecision, dt, "(temporal datetime)"},
		csrc{types.Time, types.Timespan(36672000000), "(temporal time)"},
		// a YEAR value is a number to Convert.Eval (2020 reads as 00:20:20, 1999 is no hhmmss)
		csrc{types.Year, int16(2020), "(num small)"}, csrc{types.Year, int16(1999), "(num big)"},
	)
	return out
}

// ---------------------------------------------------------------------------------------------
// conv: unit stream on expression.Convert.

func convCases(out *hx.Out, r *hx.Rand) {
	ctx := sql.NewEmptyContext()
	srcs := convSources(r)
	for _, t := range convTargets {
		// a NULL input (only under a nullable child)
		obs := convObs(ctx, t, csrc{types.Int64, nil, "null"}, true)
		out.Case(hx.List("conv", t, "null", "1", "unit"), obs, false)
		for _, s := range srcs {
			for _, nn := range []bool{false, true} {
				obs := convObs(ctx, t, s, nn)
				id := out.Case(hx.List("conv", t, s.sexp, b01(nn), "unit"), obs, true)
				out.Stat("conv:unit")
				if obs == "f0 n1" {
					out.OracleFail(id, "-", fmt.Sprintf("Convert(%s) of a non-NULL %s %s is NULL but IsNullable is false", t, s.typ, s.sexp))
					out.Stat("conv:notnull-null")
				}
			}
		}
	}
}

func b01(b bool) string {
	if b {
		return "1"
	}
	return "0"
}

// ---------------------------------------------------------------------------------------------
// gen: unit stream on types.GeneralizeTypes (text branch).

type ttype struct {
	t    sql.StringType
	cs   int // index into charsets
	base string
	n    int64 // declared length (characters) of CHAR / VARCHAR
}

var charsets = []struct {
	name    string
	coll    sql.CollationID
	sqlName string
	wide    string // the widest character the data of this stream uses in that character set
}{
	{"u4", collU4, "utf8mb4", "😀"}, {"l1", collL1, "latin1", "a"}, {"u3", collU3, "utf8mb3", "€"}, {"u16", collU16, "utf16", "😀"}, {"as", collAsc, "ascii", "a"},
}

func mkChar(base string, n int64, cs int) ttype {
	bt := sqltypes.VarChar
	if base == "CHAR" {
		bt = sqltypes.Char
	}
	return ttype{t: types.MustCreateString(bt, n, charsets[cs].coll), cs: cs, base: base, n: n}
}

func mkText(base string, cs int) ttype {
	max := map[string]int64{"TINYTEXT": types.TinyTextBlobMax, "TEXT": types.TextBlobMax, "MEDIUMTEXT": types.MediumTextBlobMax, "LONGTEXT": types.LongTextBlobMax}[base]
	return ttype{t: types.MustCreateString(sqltypes.Text, max/charsets[cs].coll.CharacterSet().MaxLength(), charsets[cs].coll), cs: cs, base: base}
}

func (t ttype) ddl() string {
	d := t.base
	if t.base == "CHAR" || t.base == "VARCHAR" {
		d = fmt.Sprintf("%s(%d)", t.base, t.n)
	}
	return d + " CHARACTER SET " + charsets[t.cs].sqlName
}

func (t ttype) isText() bool { return t.t.Type() == sqltypes.Text }
func (t ttype) mb() int64    { return t.t.CharacterSet().MaxLength() }

// describeTextTy renders a type as the model's TextTy: (ty text chars bytes mb).
func describeTextTy(t sql.Type) string {
	st, ok := t.(sql.StringType)
	if !ok {
		return hx.List("other", hx.HexS(fmt.Sprint(t)))
	}
	switch st.Type() {
	case sqltypes.Char, sqltypes.VarChar:
		return fmt.Sprintf("(ty 0 %d %d %d)", st.Length(), st.MaxByteLength(), st.CharacterSet().MaxLength())
	case sqltypes.Text:
		return fmt.Sprintf("(ty 1 %d %d %d)", st.Length(), st.MaxByteLength(), st.CharacterSet().MaxLength())
	}
	return hx.List("other", hx.HexS(fmt.Sprint(t)))
}

func textPool() []ttype {
	var out []ttype
	for cs := range charsets {
		for _, n := range []int64{0, 1, 3, 10, 255} {
			out = append(out, mkChar("CHAR", n, cs))
		}
		for _, n := range []int64{0, 1, 5, 10, 12, 30, 40, 63, 64, 85, 100, 255, 256, 1000, 16383} {
			out = append(out, mkChar("VARCHAR", n, cs))
		}
		for _, b := range []string{"TINYTEXT", "TEXT", "MEDIUMTEXT", "LONGTEXT"} {
			out = append(out, mkText(b, cs))
		}
	}
	return out
}

// widths: bytes of the widest character of the data each operand may hold. Type.Convert of a
// single-byte-character-set CHAR/VARCHAR counts the UTF-8 bytes of the internal string (C28/C10's
// subject), so as soon as one operand has such a character set all data is ASCII.
func widths(a, b ttype) (int, int) {
	if a.mb() == 1 || b.mb() == 1 {
		return 1, 1
	}
	return len(charsets[a.cs].wide), len(charsets[b.cs].wide)
}

const topCap = 70000 // longest witness string built for MEDIUMTEXT / LONGTEXT (bytes)

var repCache = map[string]string{}

func rep(ch string, n int64) string {
	k := fmt.Sprintf("%s/%d", ch, n)
	if s, ok := repCache[k]; ok {
		return s
	}
	s := strings.Repeat(ch, int(n))
	if len(repCache) < 4000 {
		repCache[k] = s
	}
	return s
}

func charOfWidth(w int) string {
	switch w {
	case 3:
		return "€"
	case 4:
		return "😀"
	}
	return "a"
}

// topValue: the longest value of the type over an alphabet of characters of at most w bytes.
func topValue(t ttype, w int) string {
	if t.isText() {
		n := t.t.MaxByteLength()
		if n > topCap {
			n = topCap
		}
		return rep("a", n)
	}
	return rep(charOfWidth(w), t.t.Length())
}

func genCases(out *hx.Out, r *hx.Rand, n int, all bool) {
	ctx := sql.NewEmptyContext()
	pool := textPool()
	one := func(a, b ttype) {
		var res sql.Type
		p := hx.Safe(func() { res = types.GeneralizeTypes(a.t, b.t) })
		ta, tb := describeTextTy(a.t), describeTextTy(b.t)
		if p != "" {
			out.Case(hx.List("gpick", ta, tb, "unit"), "crash", true)
			return
		}
		out.Case(hx.List("gpick", ta, tb, "unit"), describeTextTy(res), true)
		wa, wb := widths(a, b)
		cov := "1"
		if !accepts(ctx, res, topValue(a, wa)) || !accepts(ctx, res, topValue(b, wb)) {
			cov = "0"
		}
		id := out.Case(fmt.Sprintf("(gcov %s %s %d %d)", ta, tb, wa, wb), cov, true)
		out.Stat("gent:unit")
		if a.cs != b.cs {
			out.Stat("gent:unit-mixed-charset")
		}
		if cov == "0" {
			out.OracleFail(id, "-", fmt.Sprintf("GeneralizeTypes(%s, %s) = %s does not accept the longest value of an operand", a.ddl(), b.ddl(), res))
			out.Stat("gent:not-covered")
		}
	}
	// corpus: the shapes of the listed finding and of the byte-width variant, both operand orders
	u10, l30 := mkChar("VARCHAR", 10, 0), mkChar("VARCHAR", 30, 1)
	one(u10, l30)
	one(l30, u10)
	one(mkText("TINYTEXT", 0), mkChar("VARCHAR", 100, 0))
	one(mkChar("VARCHAR", 12, 3), mkChar("VARCHAR", 10, 0))
	one(mkText("TINYTEXT", 1), mkText("TEXT", 0))
	one(mkChar("VARCHAR", 10, 2), mkChar("VARCHAR", 12, 1))
	if all {
		for _, a := range pool {
			for _, b := range pool {
				one(a, b)
			}
		}
		return
	}
	for i := 0; i < n; i++ {
		a, b := hx.Pick(r, pool), hx.Pick(r, pool)
		if r.Chance(1, 2) { // same family, different character set: where storage width and length disagree
			for k := 0; k < 8 && (a.isText() != b.isText() || a.cs == b.cs); k++ {
				b = hx.Pick(r, pool)
			}
		}
		one(a, b)
	}
}

// ---------------------------------------------------------------------------------------------
// cv: statements.

type xval struct{ lit, src string }

type xcol struct {
	name, ddl, fam, tkey string
	nullable            bool
	pool                []xval
	same                []string // targets whose type Equals the column's: the planbuilder drops such a Convert (factory.buildConvert)
}

func hexLit(b []byte) string { return "x'" + fmt.Sprintf("%x", b) + "'" }

func bytesPool(blob int) []xval {
	var out []xval
	for _, v := range []struct {
		shape string
		b     []byte
	}{
		{"junk", []byte{0xff, 0x41}}, {"junk", []byte("AB")}, {"empty", []byte{}}, {"junk", []byte{0xc3}}, {"junk", []byte{0x41, 0xe2, 0x82}},
		{"junk", []byte("é😀")}, {"date", []byte("2020-01-31")}, {"num", []byte("15")}, {"time", []byte("10:11:12")},
		{"junk", []byte("abcdefghi")}, {"junk", []byte{0x00}}, {"junk", []byte{0xed, 0xa0, 0x80}}, {"junk", []byte{0xff, 0x41, 0xff, 0x41, 0xff, 0x41, 0xff, 0x41, 0xff}},
		{"junk", []byte{0, 0, 0, 0, 0, 0, 0, 0, 0xff}}, {"junk", []byte{0, 0xff, 0x41, 0xff, 0x41, 0xff, 0x41, 0xff, 0x41, 0xff}},
	} {
		out = append(out, xval{hexLit(v.b), fmt.Sprintf("(bytes %s %d %s)", hx.Hex(v.b), blob, v.shape)})
	}
	return out
}

func textValPool(cs string) []xval {
	var out []xval
	for _, ts := range textShapes {
		shape := ts.shape
		if ts.val == "é😀" && cs == "l1" {
			shape = "unenc"
		}
		out = append(out, xval{"'" + ts.val + "'", fmt.Sprintf("(text %s %s)", shape, cs)})
	}
	return out
}

func litPool(src string, lits ...string) []xval {
	var out []xval
	for _, l := range lits {
		out = append(out, xval{l, src})
	}
	return out
}

func xcols() []xcol {
	ints := append(litPool("(num small)", "5", "-7", "0", "59", "1234"), litPool("(num big)", "20200131", "99999999")...)
	return []xcol{
		{"vb", "VARBINARY(12)", "other", "varbinary(12)", false, bytesPool(0), nil},
		{"vbn", "VARBINARY(12)", "other", "varbinary(12)", true, bytesPool(0), nil},
		{"bl", "BLOB", "blob", "blob", false, bytesPool(1), nil},
		{"su", "VARCHAR(40) CHARACTER SET utf8mb4", "other", "varchar(40) u4", false, textValPool("u4"), nil},
		{"sun", "VARCHAR(40) CHARACTER SET utf8mb4", "other", "varchar(40) u4", true, textValPool("u4"), nil},
		{"sl", "VARCHAR(40) CHARACTER SET latin1", "other", "varchar(40) l1", false, textValPool("l1"), nil},
		{"tx", "TEXT", "other", "text u4", false, textValPool("u4"), nil},
		{"n", "INT", "sint", "int", false, ints, nil},
		{"nn", "INT", "sint", "int", true, ints, nil},
		{"bi", "BIGINT", "sint", "bigint", false, ints, []string{expression.ConvertToSigned}},
		{"un", "INT UNSIGNED", "uint", "int unsigned", false, append(litPool("(num small)", "0", "5", "1234"), litPool("(num big)", "4000000000")...), nil},
		{"de", "DECIMAL(10,2)", "decimal", "decimal(10,2)", false, litPool("(num small)", "1.50", "0.00", "-2.25"), nil},
		{"f", "DOUBLE", "float", "double", false, litPool("(num small)", "2.5", "0", "-1.25"), []string{expression.ConvertToDouble, expression.ConvertToReal}},
		{"d", "DATE", "other", "date", false, litPool("(temporal date)", "'2020-01-31'", "'1999-12-01'"), []string{expression.ConvertToDate}},
		{"dt", "DATETIME", "other", "datetime", false, litPool("(temporal datetime)", "'2020-01-31 10:11:12'", "'1999-12-01 00:00:00'"), []string{expression.ConvertToDatetime}},
		{"t", "TIME", "other", "time", false, litPool("(temporal time)", "'10:11:12'", "'-01:02:03'"), []string{expression.ConvertToTime}},
		{"y", "YEAR", "year", "year", false, append(litPool("(num small)", "2020"), litPool("(num big)", "1999")...), []string{expression.ConvertToYear}},
	}
}

var castSQL = map[string]string{
	expression.ConvertToBinary: "BINARY", expression.ConvertToChar: "CHAR", expression.ConvertToNChar: "NCHAR", expression.ConvertToDate: "DATE",
	expression.ConvertToDatetime: "DATETIME", expression.ConvertToDecimal: "DECIMAL", expression.ConvertToFloat: "FLOAT", expression.ConvertToDouble: "DOUBLE",
	expression.ConvertToReal: "REAL", expression.ConvertToJSON: "JSON", expression.ConvertToSigned: "SIGNED", expression.ConvertToTime: "TIME",
	expression.ConvertToUnsigned: "UNSIGNED", expression.ConvertToYear: "YEAR",
}

func pkOf(v interface{}) (int, bool) {
	d, ok := toDec(v)
	if !ok {
		return 0, false
	}
	i, err := d.Int64()
	return int(i), err == nil
}

func flagNull(c *sql.Column, v interface{}) string {
	return fmt.Sprintf("f%s n%s", b01(c.Nullable), b01(v == nil))
}

func (s *stmtRunner) convStream(r *hx.Rand, thorough bool) error {
	e := eng.New("d")
	ctx := e.Ctx()
	cols := xcols()
	var ddl []string
	for _, c := range cols {
		d := c.name + " " + c.ddl
		if !c.nullable {
			d += " NOT NULL"
		}
		ddl = append(ddl, d)
	}
	e.MustExec(ctx, "CREATE TABLE x (pk INT PRIMARY KEY, "+strings.Join(ddl, ", ")+")")
	const nrows = 6
	src := map[string][]string{} // column -> class of the value of row pk (1-based)
	fill := func(round int) error {
		e.MustExec(ctx, "DELETE FROM x")
		for _, c := range cols {
			src[c.name] = make([]string, nrows+1)
		}
		for pk := 1; pk <= nrows; pk++ {
			vals := []string{strconv.Itoa(pk)}
			for _, c := range cols {
				v := c.pool[(pk-1+round*nrows)%len(c.pool)]
				if round > 0 && r.Chance(1, 3) {
					v = hx.Pick(r, c.pool)
				}
				if c.nullable && (pk == 2 || r.Chance(1, 6)) {
					v = xval{"NULL", "null"}
				}
				src[c.name][pk] = v.src
				vals = append(vals, v.lit)
			}
			q := "INSERT INTO x VALUES (" + strings.Join(vals, ", ") + ")"
			if res := e.Query(ctx, q); res.Class() != "ok" {
				return fmt.Errorf("harness defect: %s: %v", q, res.Err)
			}
		}
		return nil
	}
	notNull := func(id string, c *sql.Column, text string) {
		s.out.OracleFail(id, "-", fmt.Sprintf("column %s (%s) reported NOT NULL holds NULL: %s", c.Name, c.Type, text))
		s.out.Stat("cv:notnull-null")
	}
	// CAST(col AS T): one case per row
	castStmt := func(c xcol, target string) {
		sel := "SELECT pk, " + hx.Pick(r, []string{"CAST(%s AS %s)", "CONVERT(%s, %s)"}) + " FROM x"
		text := fmt.Sprintf(sel, c.name, castSQL[target])
		res := e.Query(e.Ctx(), text)
		via := "cast"
		for _, t := range c.same {
			if t == target {
				via = "same"
			}
		}
		emit := func(res *eng.Res, text string) {
			for _, row := range res.Raw {
				pk, ok := pkOf(row[0])
				if !ok || pk < 1 || pk > nrows {
					continue
				}
				obs := flagNull(res.Schema[1], row[1])
				id := s.out.Case(hx.List("conv", target, src[c.name][pk], b01(c.nullable), via), obs, true)
				s.out.Stat("cv:cast")
				if obs == "f0 n1" {
					notNull(id, res.Schema[1], text)
				}
			}
		}
		if res.Class() == "ok" {
			emit(res, text)
			s.columns(res, text, []string{"column", "cast"})
			return
		}
		// a row made the statement fail (JSON is the only target with an error): row by row
		for pk := 1; pk <= nrows; pk++ {
			t1 := text + " WHERE pk = " + strconv.Itoa(pk)
			r1 := e.Query(e.Ctx(), t1)
			switch {
			case r1.Class() == "ok":
				emit(r1, t1)
			case strings.HasPrefix(r1.Class(), "err:"):
				s.out.Case(hx.List("conv", target, src[c.name][pk], b01(c.nullable), via), "err", true)
				s.out.Stat("cv:cast-err")
			default:
				s.out.Case(hx.List("conv", target, src[c.name][pk], b01(c.nullable), via), r1.Class(), true)
			}
		}
	}
	// c1 UNION c2: the implicit conversion of both sides; `scope`: seen through a derived table
	unionStmt := func(c1, c2 xcol, scope bool) {
		op := hx.Pick(r, []string{"UNION", "UNION ALL"})
		inner := fmt.Sprintf("SELECT pk AS p, %s AS x FROM x %s SELECT pk + 100, %s FROM x", c1.name, op, c2.name)
		text := inner
		if scope {
			text = "SELECT p, x FROM (" + inner + ") dq"
		}
		res := e.Query(e.Ctx(), text)
		if res.Class() != "ok" {
			s.out.Stat("cv:union-engine-" + res.Class())
			return
		}
		same := c1.tkey == c2.tkey
		for _, row := range res.Raw {
			pk, ok := pkOf(row[0])
			if !ok {
				continue
			}
			side, cl := "l", ""
			switch {
			case pk >= 1 && pk <= nrows:
				cl = src[c1.name][pk]
			case pk >= 101 && pk <= 100+nrows:
				side, cl = "r", src[c2.name][pk-100]
			default:
				continue
			}
			obs := flagNull(res.Schema[1], row[1])
			id := s.out.Case(hx.List("uconv", c1.fam, c2.fam, b01(same), cl, b01(c1.nullable), b01(c2.nullable), side, b01(scope)), obs, true)
			s.out.Stat("cv:union")
			if obs == "f0 n1" {
				notNull(id, res.Schema[1], text)
			}
		}
		feat := "setopconv"
		if scope { // the listed finding kind_mismatch_setop: the scope keeps GeneralizeTypes, the rows are converted
			feat = "setop"
		}
		s.columns(res, text, []string{"column", feat})
	}
	rounds, nUnion := 2, 70
	if thorough {
		rounds, nUnion = 12, len(cols)*len(cols)
	}
	for round := 0; round < rounds; round++ {
		if err := fill(round); err != nil {
			return err
		}
		if round == 0 { // corpus: the shapes of the listed findings and of the seeded class
			byName := map[string]xcol{}
			for _, c := range cols {
				byName[c.name] = c
			}
			castStmt(byName["vb"], expression.ConvertToChar)
			castStmt(byName["su"], expression.ConvertToTime)
			castStmt(byName["bl"], expression.ConvertToSigned)
			unionStmt(byName["vb"], byName["n"], false)
			unionStmt(byName["vb"], byName["n"], true)
		}
		for _, c := range cols {
			for _, t := range convTargets {
				castStmt(c, t)
			}
		}
		for i := 0; i < nUnion; i++ {
			c1, c2 := hx.Pick(r, cols), hx.Pick(r, cols)
			if thorough && round == 0 {
				c1, c2 = cols[i/len(cols)], cols[i%len(cols)]
			}
			unionStmt(c1, c2, r.Chance(1, 3))
		}
	}
	return s.genStream(r.Fork(), thorough)
}

// genStream: CASE / IF / IFNULL / derived-table UNION over text columns of different character sets
// and lengths. Table ga: every character set, ASCII data; table gw: multi-byte character sets only,
// data of the widest characters.
func (s *stmtRunner) genStream(r *hx.Rand, thorough bool) error {
	e := eng.New("d")
	ctx := e.Ctx()
	type gcol struct {
		name     string
		t        ttype
		nullable bool
	}
	specs := []ttype{
		mkChar("VARCHAR", 10, 0), mkChar("VARCHAR", 30, 1), mkChar("VARCHAR", 12, 2), mkChar("VARCHAR", 8, 3), mkChar("VARCHAR", 20, 4),
		mkChar("CHAR", 3, 0), mkChar("CHAR", 5, 1), mkText("TINYTEXT", 0), mkText("TINYTEXT", 1), mkText("TEXT", 0),
		mkChar("VARCHAR", 100, 0), mkChar("VARCHAR", 300, 1), mkChar("VARCHAR", 40, 3), mkChar("VARCHAR", 64, 0), mkChar("VARCHAR", 85, 2), mkText("TINYTEXT", 2),
	}
	var ga, gw []gcol
	for i, t := range specs {
		c := gcol{fmt.Sprintf("a%d", i+1), t, i%3 == 2}
		ga = append(ga, c)
		if t.mb() > 1 {
			gw = append(gw, c)
		}
	}
	mk := func(tab string, cs []gcol) {
		var ddl []string
		for _, c := range cs {
			d := c.name + " " + c.t.ddl()
			if !c.nullable {
				d += " NOT NULL"
			}
			ddl = append(ddl, d)
		}
		e.MustExec(ctx, "CREATE TABLE "+tab+" (pk INT PRIMARY KEY, "+strings.Join(ddl, ", ")+")")
	}
	mk("ga", ga)
	mk("gw", gw)
	const nrows = 5
	fill := func(tab string, cs []gcol, wide bool) error {
		e.MustExec(ctx, "DELETE FROM "+tab)
		for pk := 1; pk <= nrows; pk++ {
			vals := []string{strconv.Itoa(pk)}
			for _, c := range cs {
				ch := "a"
				if wide {
					ch = charsets[c.t.cs].wide
				}
				max := c.t.t.Length()
				if c.t.isText() {
					max = c.t.t.MaxByteLength() / int64(len(ch))
					if max > 400 {
						max = 400
					}
				}
				var n int64
				switch (pk + r.Intn(2)) % 5 {
				case 0:
					n = 0
				case 1:
					n = 1
				case 2:
					n = max / 2
				default: // the longest value is what separates a wrong declared type from a right one
					n = max
				}
				if n > max {
					n = max
				}
				v := "'" + strings.Repeat(ch, int(n)) + "'"
				if c.nullable && r.Chance(1, 4) {
					v = "NULL"
				}
				vals = append(vals, v)
			}
			q := "INSERT INTO " + tab + " VALUES (" + strings.Join(vals, ", ") + ")"
			if res := e.Query(ctx, q); res.Class() != "ok" {
				return fmt.Errorf("harness defect: %.200s: %v", q, res.Err)
			}
		}
		return nil
	}
	stmt := func(tab string, c1, c2 gcol, kind string) {
		var text string
		switch kind {
		case "case":
			text = fmt.Sprintf("SELECT CASE WHEN pk %% 2 = %d THEN %s ELSE %s END AS v FROM %s", r.Intn(2), c1.name, c2.name, tab)
		case "if":
			text = fmt.Sprintf("SELECT IF(pk %% 2 = %d, %s, %s) AS v FROM %s", r.Intn(2), c1.name, c2.name, tab)
		case "ifnull":
			text = fmt.Sprintf("SELECT IFNULL(%s, %s) AS v FROM %s", c1.name, c2.name, tab)
		case "dtunion":
			text = fmt.Sprintf("SELECT v FROM (SELECT %s AS v FROM %s UNION ALL SELECT %s FROM %s) dq", c1.name, tab, c2.name, tab)
		case "coalesce":
			text = fmt.Sprintf("SELECT COALESCE(%s, %s) AS v, CONCAT(%s, %s) AS w FROM %s", c1.name, c2.name, c1.name, c2.name, tab)
		}
		res := e.Query(e.Ctx(), text)
		if res.Class() != "ok" {
			s.out.Stat("cv:gen-engine-" + res.Class())
			return
		}
		s.out.Stat("cv:gen-" + kind)
		for _, j := range nullCols(res) {
			if !res.Schema[j].Nullable {
				id := s.out.Case(hx.List("stmt", hx.HexS(text), strconv.Itoa(j)), "notnull-null", true)
				s.out.OracleFail(id, "notnull_holds_null", fmt.Sprintf("column %d (%s) reported NOT NULL holds NULL: %s", j, res.Schema[j].Type, text))
			}
		}
		if kind == "coalesce" {
			s.columns(res, text, []string{"coalesce", "concat"})
			return
		}
		ta, tb := describeTextTy(c1.t.t), describeTextTy(c2.t.t)
		col := res.Schema[0]
		s.out.Case(hx.List("gpick", ta, tb, kind), describeTextTy(col.Type), true)
		cells := make([]string, 0, len(res.Raw))
		var bad []string
		for i, row := range res.Raw {
			cd := cellOf(row[0])
			if cd == "" {
				s.out.Stat("cv:gen-value-outside-model")
				return
			}
			cells = append(cells, cd)
			if !accepts(s.ctx, col.Type, row[0]) {
				bad = append(bad, strconv.Itoa(i))
			}
		}
		obs := "ok"
		if len(bad) > 0 {
			obs = "bad " + strings.Join(bad, " ")
		}
		id := s.out.Case(hx.List("gcol", ta, tb, "("+strings.Join(cells, " ")+")", kind), obs, len(cells) > 0)
		if c1.t.cs != c2.t.cs {
			s.out.Stat("cv:gen-mixed-charset")
		}
		if len(bad) > 0 {
			s.out.OracleFail(id, "-", fmt.Sprintf("column %s (%s) of %s holds a value its type rejects (row %s)", col.Name, col.Type, text, bad[0]))
			s.out.Stat("cv:gen-value-rejected")
		}
	}
	kinds := []string{"case", "if", "ifnull", "dtunion", "coalesce"}
	rounds, per := 2, 90
	if thorough {
		rounds, per = 10, 1200
	}
	for round := 0; round < rounds; round++ {
		if err := fill("ga", ga, false); err != nil {
			return err
		}
		if err := fill("gw", gw, true); err != nil {
			return err
		}
		if round == 0 { // corpus: VARCHAR(10) utf8mb4 with VARCHAR(30) latin1; TINYTEXT with VARCHAR(100)
			for _, k := range kinds[:4] {
				stmt("ga", ga[0], ga[1], k)
				stmt("ga", ga[1], ga[0], k)
				stmt("ga", ga[7], ga[10], k)
			}
		}
		for i := 0; i < per; i++ {
			tab, cs := "ga", ga
			if r.Chance(1, 3) {
				tab, cs = "gw", gw
			}
			c1, c2 := hx.Pick(r, cs), hx.Pick(r, cs)
			stmt(tab, c1, c2, hx.Pick(r, kinds))
		}
	}
	return nil
}

// ---------------------------------------------------------------------------------------------
// Facts.

// famReps: representatives of the type families GetConvertToType distinguishes.
func famReps() []struct {
	fam string
	t   sql.Type
} {
	return []struct {
		fam string
		t   sql.Type
	}{
		{"null", types.Null}, {"blob", types.Blob}, {"blob", types.LongBlob}, {"decimal", types.MustCreateDecimalType(10, 2)},
		{"bit", types.MustCreateBitType(8)}, {"uint", types.Uint8}, {"uint", types.Uint64}, {"sint", types.Int32}, {"sint", types.Int64}, {"sint", types.Boolean},
		{"float", types.Float64}, {"float", types.Float32}, {"year", types.Year},
		{"other", types.LongText}, {"other", strType(sqltypes.VarChar, 10, collL1)}, {"other", strType(sqltypes.VarBinary, 8, sql.Collation_binary)},
		{"other", types.Date}, {"other", types.DatetimeMaxPrecision}, {"other", types.Time}, {"other", types.JSON},
	}
}

func extractConv(a hx.ExtractArgs, lf *hx.LeanFile) error {
	// 1. Convert.IsNullable: the targets of the `return true` case, and the default
	src, err := hx.ParseSrc(a.Repo, "sql/expression/convert.go")
	if err != nil {
		return err
	}
	fd, err := src.Func("Convert", "IsNullable")
	if err != nil {
		return err
	}
	if len(fd.Body.List) != 1 {
		return fmt.Errorf("Convert.IsNullable: expected a single switch statement")
	}
	sw, ok := fd.Body.List[0].(*ast.SwitchStmt)
	if !ok || src.Text(sw.Tag) != "c.castToType" {
		return fmt.Errorf("Convert.IsNullable: expected `switch c.castToType`")
	}
	var always []string
	def := ""
	ncase := 0
	for _, st := range sw.Body.List {
		cc := st.(*ast.CaseClause)
		var body []string
		for _, b := range cc.Body {
			body = append(body, oneLine(src.Text(b)))
		}
		bt := strings.Join(body, "; ")
		if cc.List == nil {
			def = bt
			continue
		}
		ncase++
		if bt != "return true" {
			return fmt.Errorf("Convert.IsNullable: unexpected case body %q", bt)
		}
		for _, x := range cc.List {
			always = append(always, src.Text(x))
		}
	}
	lf.Comment("Convert.IsNullable: the targets of `return true`, the default branch")
	lf.DefStringList("convertAlwaysNullable", always)
	lf.DefString("convertNullableDefault", def)
	lf.DefNat("convertNullableCases", uint64(ncase))
	// 2. the castToType constants
	var consts []string
	for _, d := range src.File.Decls {
		gd, ok := d.(*ast.GenDecl)
		if !ok || gd.Tok != token.CONST {
			continue
		}
		for _, sp := range gd.Specs {
			vs := sp.(*ast.ValueSpec)
			for i, n := range vs.Names {
				if strings.HasPrefix(n.Name, "ConvertTo") && i < len(vs.Values) {
					if bl, ok := vs.Values[i].(*ast.BasicLit); ok {
						v, _ := strconv.Unquote(bl.Value)
						consts = append(consts, fmt.Sprintf("(%s, %s)", hx.LeanString(n.Name), hx.LeanString(v)))
					}
				}
			}
		}
	}
	lf.Raw("def convertConsts : List (String × String) := [" + strings.Join(consts, ", ") + "]\n")
	// 3. Convert.Eval: a NULL input is NULL; a conversion error becomes NULL unless the target is JSON
	efd, err := src.Func("Convert", "Eval")
	if err != nil {
		return err
	}
	var evalIfs []string
	for _, st := range efd.Body.List {
		if is, ok := st.(*ast.IfStmt); ok {
			evalIfs = append(evalIfs, oneLine(src.Text(is.Cond))+" => "+oneLine(src.Text(is.Body)))
		}
	}
	lf.Comment("Convert.Eval: the top-level if statements")
	lf.DefStringList("convertEvalIfs", evalIfs)
	// 4. GeneralizeTypes: the text/text branch
	csrcf, err := hx.ParseSrc(a.Repo, "sql/types/conversion.go")
	if err != nil {
		return err
	}
	gfd, err := csrcf.Func("", "GeneralizeTypes")
	if err != nil {
		return err
	}
	var branch []string
	for _, st := range gfd.Body.List {
		is, ok := st.(*ast.IfStmt)
		if !ok || oneLine(csrcf.Text(is.Cond)) != "IsText(a) && IsText(b)" {
			continue
		}
		for _, b := range is.Body.List {
			branch = append(branch, oneLine(csrcf.Text(b)))
		}
	}
	if branch == nil {
		return fmt.Errorf("GeneralizeTypes: the `IsText(a) && IsText(b)` branch is gone")
	}
	lf.Comment("GeneralizeTypes: statements of the `IsText(a) && IsText(b)` branch; StringType.Length")
	lf.DefStringList("generalizeTextBranch", branch)
	ssrc, err := hx.ParseSrc(a.Repo, "sql/types/strings.go")
	if err != nil {
		return err
	}
	lfd, err := ssrc.Func("StringType", "Length")
	if err != nil {
		return err
	}
	lf.DefString("stringTypeLength", oneLine(ssrc.Text(lfd.Body)))
	// run-time: the compiled GeneralizeTypes on a fixed table of text-type pairs
	var runs []string
	pool := []ttype{}
	for cs := range charsets {
		pool = append(pool, mkChar("VARCHAR", 10, cs), mkChar("VARCHAR", 30, cs), mkText("TINYTEXT", cs))
	}
	pool = append(pool, mkChar("CHAR", 12, 0), mkChar("CHAR", 12, 1), mkText("TEXT", 0), mkText("TEXT", 1), mkChar("VARCHAR", 100, 0), mkChar("VARCHAR", 63, 0),
		mkText("LONGTEXT", 0), mkText("MEDIUMTEXT", 1))
	leanTy := func(t sql.Type) (string, error) {
		st, ok := t.(sql.StringType)
		if !ok || !(st.Type() == sqltypes.Char || st.Type() == sqltypes.VarChar || st.Type() == sqltypes.Text) {
			return "", fmt.Errorf("GeneralizeTypes returned %s for two text types", t)
		}
		return fmt.Sprintf("(%v, %d, %d, %d)", st.Type() == sqltypes.Text, st.Length(), st.MaxByteLength(), st.CharacterSet().MaxLength()), nil
	}
	for _, x := range pool {
		for _, y := range pool {
			res := types.GeneralizeTypes(x.t, y.t)
			lx, _ := leanTy(x.t)
			ly, _ := leanTy(y.t)
			lr, err := leanTy(res)
			if err != nil {
				return err
			}
			runs = append(runs, fmt.Sprintf("  (%s, %s, %s)", lx, ly, lr))
		}
	}
	lf.Comment("(a, b, GeneralizeTypes(a, b)) as (isText, Length, MaxByteLength, charset MaxLength), run on the compiled code")
	lf.Raw("def generalizeRuns : List ((Bool × Nat × Nat × Nat) × (Bool × Nat × Nat × Nat) × (Bool × Nat × Nat × Nat)) := [\n" + strings.Join(runs, ",\n") + "]\n")
	// 5. GetConvertToType on representatives of the families, run on the compiled code
	var ct []string
	seenCt := map[string]bool{}
	reps := famReps()
	for _, l := range reps {
		for _, r := range reps {
			if l.fam == "null" && r.fam == "null" {
				// GetConvertToType(Null, Null) recurses without end (stack overflow); mergeSetOpSchemas
				// never asks: the two types are Equals, no conversion is inserted
				continue
			}
			row := fmt.Sprintf("(%s, %s, %s)", hx.LeanString(l.fam), hx.LeanString(r.fam), hx.LeanString(expression.GetConvertToType(l.t, r.t)))
			if !seenCt[row] { // one row per distinct answer: two answers within a family pair break the fact
				seenCt[row] = true
				ct = append(ct, row)
			}
		}
	}
	lf.Comment("(family of l, family of r, GetConvertToType(l, r)), run on the compiled code")
	lf.Raw("def convertToTypeRuns : List (String × String × String) := [\n  " + strings.Join(ct, ",\n  ") + "]\n")
	// 6. where the flag of a set-operation column comes from
	so, err := hx.ParseSrc(a.Repo, "sql/plan/set_op.go")
	if err != nil {
		return err
	}
	sfd, err := so.Func("SetOp", "Schema")
	if err != nil {
		return err
	}
	pb, err := hx.ParseSrc(a.Repo, "sql/planbuilder/set_op.go")
	if err != nil {
		return err
	}
	mfd, err := pb.Func("Builder", "mergeSetOpScopeColumns")
	if err != nil {
		return err
	}
	find := func(s *hx.Src, n ast.Node, pred func(ast.Node) (string, bool)) string {
		out := ""
		ast.Inspect(n, func(x ast.Node) bool {
			if x == nil || out != "" {
				return false
			}
			if t, ok := pred(x); ok {
				out = t
				return false
			}
			return true
		})
		return out
	}
	schemaNullable := find(so, sfd.Body, func(x ast.Node) (string, bool) {
		as, ok := x.(*ast.AssignStmt)
		if ok && len(as.Lhs) == 1 && so.Text(as.Lhs[0]) == "c.Nullable" {
			return oneLine(so.Text(as.Rhs[0])), true
		}
		return "", false
	})
	scopeNullable := find(pb, mfd.Body, func(x ast.Node) (string, bool) {
		kv, ok := x.(*ast.KeyValueExpr)
		if ok && pb.Text(kv.Key) == "nullable" {
			return oneLine(pb.Text(kv.Value)), true
		}
		return "", false
	})
	if schemaNullable == "" || scopeNullable == "" {
		return fmt.Errorf("SetOp.Schema / mergeSetOpScopeColumns: nullable assignment not found")
	}
	lf.DefString("setopSchemaNullable", schemaNullable)
	lf.DefString("setopScopeNullable", scopeNullable)
	return nil
}
