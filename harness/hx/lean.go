package hx

import (
	"fmt"
	"os"
	"strings"
)

// LeanFile accumulates a generated Lean fact file.
type LeanFile struct {
	ns string
	b  strings.Builder
}

func NewLeanFile(namespace string, sources ...string) *LeanFile {
	l := &LeanFile{ns: namespace}
	fmt.Fprintf(&l.b, "/- GENERATED on every run by the harness extractor from /repo's working tree. Do not edit.\n   Sources: %s -/\n", strings.Join(sources, ", "))
	fmt.Fprintf(&l.b, "namespace %s\n\n", namespace)
	return l
}

func (l *LeanFile) Comment(s string)            { fmt.Fprintf(&l.b, "-- %s\n", s) }
func (l *LeanFile) DefNat(name string, v uint64) { fmt.Fprintf(&l.b, "def %s : Nat := %d\n", name, v) }
func (l *LeanFile) DefInt(name string, v int64) {
	fmt.Fprintf(&l.b, "def %s : Int := %s\n", name, LeanInt(v))
}
func (l *LeanFile) DefBool(name string, v bool) { fmt.Fprintf(&l.b, "def %s : Bool := %v\n", name, v) }
func (l *LeanFile) DefString(name, v string) {
	fmt.Fprintf(&l.b, "def %s : String := %s\n", name, LeanString(v))
}
func (l *LeanFile) DefNatList(name string, vs []uint64) {
	parts := make([]string, len(vs))
	for i, v := range vs {
		parts[i] = fmt.Sprintf("%d", v)
	}
	fmt.Fprintf(&l.b, "def %s : List Nat := [%s]\n", name, strings.Join(parts, ", "))
}
func (l *LeanFile) DefStringList(name string, vs []string) {
	parts := make([]string, len(vs))
	for i, v := range vs {
		parts[i] = LeanString(v)
	}
	fmt.Fprintf(&l.b, "def %s : List String := [%s]\n", name, strings.Join(parts, ", "))
}

// Raw appends arbitrary Lean text.
func (l *LeanFile) Raw(s string) { l.b.WriteString(s) }

func (l *LeanFile) Write(path string) error {
	fmt.Fprintf(&l.b, "\nend %s\n", l.ns)
	return os.WriteFile(path, []byte(l.b.String()), 0o644)
}

func LeanInt(v int64) string {
	if v < 0 {
		return fmt.Sprintf("(%d)", v)
	}
	return fmt.Sprintf("%d", v)
}

func LeanString(s string) string {
	var b strings.Builder
	b.WriteByte('"')
	for _, r := range s {
		switch {
		case r == '"':
			b.WriteString("\\\"")
		case r == '\\':
			b.WriteString("\\\\")
		case r == '\n':
			b.WriteString("\\n")
		case r == '\t':
			b.WriteString("\\t")
		case r == '\r':
			b.WriteString("\\r")
		case r < 0x20 || r == 0x7f:
			fmt.Fprintf(&b, "\\x%02x", r)
		default:
			b.WriteRune(r)
		}
	}
	b.WriteByte('"')
	return b.String()
}
