package hx

import (
	"bytes"
	"fmt"
	"go/ast"
	"go/parser"
	"go/printer"
	"go/token"
	"path/filepath"
)

// Src is one parsed Go source file of the repository.
type Src struct {
	Fset *token.FileSet
	File *ast.File
	Path string
}

func ParseSrc(repo, rel string) (*Src, error) {
	fset := token.NewFileSet()
	p := filepath.Join(repo, rel)
	f, err := parser.ParseFile(fset, p, nil, parser.ParseComments)
	if err != nil {
		return nil, err
	}
	return &Src{Fset: fset, File: f, Path: rel}, nil
}

// Func returns the declaration of function `name` (or method `recv.name` when recv != "").
func (s *Src) Func(recv, name string) (*ast.FuncDecl, error) {
	for _, d := range s.File.Decls {
		fd, ok := d.(*ast.FuncDecl)
		if !ok || fd.Name.Name != name {
			continue
		}
		if recv == "" && fd.Recv == nil {
			return fd, nil
		}
		if recv != "" && fd.Recv != nil && len(fd.Recv.List) == 1 {
			if RecvName(fd.Recv.List[0].Type) == recv {
				return fd, nil
			}
		}
	}
	return nil, fmt.Errorf("%s: func %s.%s not found", s.Path, recv, name)
}

func RecvName(e ast.Expr) string {
	switch t := e.(type) {
	case *ast.StarExpr:
		return RecvName(t.X)
	case *ast.Ident:
		return t.Name
	case *ast.IndexExpr:
		return RecvName(t.X)
	case *ast.IndexListExpr:
		return RecvName(t.X)
	}
	return ""
}

// Text prints a node back to source text.
func (s *Src) Text(n ast.Node) string {
	var b bytes.Buffer
	printer.Fprint(&b, s.Fset, n)
	return b.String()
}

func (s *Src) Line(n ast.Node) int { return s.Fset.Position(n.Pos()).Line }

// PkgVarInit returns the source text of the initialiser of package-level var/const `name`.
func (s *Src) PkgVarInit(name string) (ast.Expr, error) {
	for _, d := range s.File.Decls {
		gd, ok := d.(*ast.GenDecl)
		if !ok {
			continue
		}
		for _, sp := range gd.Specs {
			vs, ok := sp.(*ast.ValueSpec)
			if !ok {
				continue
			}
			for i, n := range vs.Names {
				if n.Name == name && i < len(vs.Values) {
					return vs.Values[i], nil
				}
			}
		}
	}
	return nil, fmt.Errorf("%s: var %s not found", s.Path, name)
}
