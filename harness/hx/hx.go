// Package hx holds the helpers shared by every per-property harness binary (cmd/cXX).
//
// A harness binary has two modes:
//
//	cXX extract --repo /repo --out <file.lean>     regenerate the Lean fact file from the source
//	cXX run --seed N --tier quick|thorough --out <dir> [--repo /repo]
//	                                              run the real code; write cases.txt / impl.txt /
//	                                              oracle.txt / stats.json into <dir>
//
// Line formats (see lean/Gms/Driver/Proto.lean):
//
//	cases.txt : <id> TAB <s-expression payload>        (fed to the Lean driver)
//	impl.txt  : <id> TAB <canonical observation of the real code>
//	oracle.txt: <id> TAB <tag> TAB <description>       (property evaluated on the real code failed)
package hx

import (
	"bufio"
	"encoding/hex"
	"encoding/json"
	"flag"
	"fmt"
	"hash/fnv"
	"os"
	"path/filepath"
	"sort"
	"strings"
)

// ---------------------------------------------------------------------------------------------
// PRNG: every random choice of a run derives from one splitmix64 state.

type Rand struct{ s uint64 }

// NewRand seeds the generator with a hash of seed, so that consecutive seeds give unrelated streams
// (with the plain linear seeding used before, the stream of seed s+1 was the stream of seed s shifted by one draw).
func NewRand(seed uint64) *Rand {
	z := seed + 0x9E3779B97F4A7C15
	z = (z ^ (z >> 30)) * 0xBF58476D1CE4E5B9
	z = (z ^ (z >> 27)) * 0x94D049BB133111EB
	z = z ^ (z >> 31)
	z = (z ^ (z >> 33)) * 0xFF51AFD7ED558CCD
	z = z ^ (z >> 29)
	return &Rand{s: z}
}

func (r *Rand) U64() uint64 {
	r.s += 0x9E3779B97F4A7C15
	z := r.s
	z = (z ^ (z >> 30)) * 0xBF58476D1CE4E5B9
	z = (z ^ (z >> 27)) * 0x94D049BB133111EB
	return z ^ (z >> 31)
}
func (r *Rand) Intn(n int) int {
	if n <= 0 {
		return 0
	}
	return int(r.U64() % uint64(n))
}
func (r *Rand) Range(lo, hi int) int { return lo + r.Intn(hi-lo+1) } // inclusive
func (r *Rand) Bool() bool          { return r.U64()&1 == 1 }
func (r *Rand) Chance(num, den int) bool {
	return r.Intn(den) < num
}
func Pick[T any](r *Rand, xs []T) T { return xs[r.Intn(len(xs))] }

// Fork returns an independent generator derived from this one (for sharding).
func (r *Rand) Fork() *Rand { return NewRand(r.U64()) }

// ---------------------------------------------------------------------------------------------
// Encoding helpers.

func Hex(b []byte) string    { return "x" + hex.EncodeToString(b) }
func HexS(s string) string   { return Hex([]byte(s)) }
func List(items ...string) string { return "(" + strings.Join(items, " ") + ")" }
func ListOf[T any](xs []T, f func(T) string) string {
	parts := make([]string, len(xs))
	for i, x := range xs {
		parts[i] = f(x)
	}
	return "(" + strings.Join(parts, " ") + ")"
}

// OneLine makes an observation safe for the line protocol.
func OneLine(s string) string {
	s = strings.ReplaceAll(s, "\\", "\\\\")
	s = strings.ReplaceAll(s, "\n", "\\n")
	s = strings.ReplaceAll(s, "\r", "\\r")
	s = strings.ReplaceAll(s, "\t", "\\t")
	return s
}

// Safe runs f and returns the panic message, if any ("" when f returned normally).
func Safe(f func()) (panicMsg string) {
	defer func() {
		if r := recover(); r != nil {
			panicMsg = fmt.Sprintf("%v", r)
			if panicMsg == "" {
				panicMsg = "panic"
			}
		}
	}()
	f()
	return ""
}

// ---------------------------------------------------------------------------------------------
// Output of a run.

type Out struct {
	dir      string
	cases    *bufio.Writer
	impl     *bufio.Writer
	oracle   *bufio.Writer
	files    []*os.File
	n        int
	distinct map[uint64]struct{}
	nontriv  map[uint64]struct{}
	stats    map[string]int
	samples  []string
	Rule     string
	Extra    map[string]any
}

func NewOut(dir string) *Out {
	if err := os.MkdirAll(dir, 0o755); err != nil {
		panic(err)
	}
	o := &Out{dir: dir, distinct: map[uint64]struct{}{}, nontriv: map[uint64]struct{}{}, stats: map[string]int{}, Extra: map[string]any{}}
	open := func(name string) *bufio.Writer {
		f, err := os.Create(filepath.Join(dir, name))
		if err != nil {
			panic(err)
		}
		o.files = append(o.files, f)
		return bufio.NewWriterSize(f, 1<<20)
	}
	o.cases = open("cases.txt")
	o.impl = open("impl.txt")
	o.oracle = open("oracle.txt")
	return o
}

// Case records one case: the payload sent to the model and the observation of the real code.
// nontrivial says whether the case counts towards distinct_nontrivial (per the harness's Rule).
func (o *Out) Case(payload string, implObs string, nontrivial bool) string {
	o.n++
	id := fmt.Sprintf("%d", o.n)
	fmt.Fprintf(o.cases, "%s\t%s\n", id, payload)
	fmt.Fprintf(o.impl, "%s\t%s\n", id, OneLine(implObs))
	h := fnv.New64a()
	h.Write([]byte(payload))
	k := h.Sum64()
	o.distinct[k] = struct{}{}
	if nontrivial {
		o.nontriv[k] = struct{}{}
	}
	if len(o.samples) < 5 || (o.n%997 == 0 && len(o.samples) < 12) {
		o.samples = append(o.samples, payload+" => "+OneLine(implObs))
	}
	return id
}

// OracleFail records that the property, evaluated on the real code alone, failed on case id.
// tag names the defect class as the harness sees it ("-" if unknown).
func (o *Out) OracleFail(id, tag, desc string) {
	if tag == "" {
		tag = "-"
	}
	fmt.Fprintf(o.oracle, "%s\t%s\t%s\n", id, tag, OneLine(desc))
}

func (o *Out) Stat(key string) { o.stats[key]++ }
func (o *Out) StatN(key string, n int) { o.stats[key] += n }
func (o *Out) N() int          { return o.n }

func (o *Out) Close() {
	o.cases.Flush()
	o.impl.Flush()
	o.oracle.Flush()
	for _, f := range o.files {
		f.Close()
	}
	keys := make([]string, 0, len(o.stats))
	for k := range o.stats {
		keys = append(keys, k)
	}
	sort.Strings(keys)
	st := map[string]any{
		"evaluations":         o.n,
		"distinct":            len(o.distinct),
		"distinct_nontrivial": len(o.nontriv),
		"rule":                o.Rule,
		"samples":             o.samples,
		"distribution":        o.stats,
		"extra":               o.Extra,
	}
	b, _ := json.MarshalIndent(st, "", " ")
	os.WriteFile(filepath.Join(o.dir, "stats.json"), b, 0o644)
}

// ---------------------------------------------------------------------------------------------
// Entry point.

type RunArgs struct {
	Seed    uint64
	Tier    string // "quick" | "thorough"
	OutDir  string
	Repo    string
	Replay  string
	Focus   string // optional hint from check.py: name of the broken obligation / region to search
	Thorough bool
}

type ExtractArgs struct {
	Repo string
	Out  string
}

// Main dispatches `extract` and `run`.
func Main(extract func(a ExtractArgs) error, run func(a RunArgs) error) {
	if len(os.Args) < 2 {
		fmt.Fprintln(os.Stderr, "usage: <bin> extract|run [flags]")
		os.Exit(2)
	}
	switch os.Args[1] {
	case "extract":
		fs := flag.NewFlagSet("extract", flag.ExitOnError)
		repo := fs.String("repo", "/repo", "repository root")
		out := fs.String("out", "", "Lean file to write")
		fs.Parse(os.Args[2:])
		if extract == nil {
			fmt.Fprintln(os.Stderr, "no facts for this property")
			os.Exit(0)
		}
		os.Remove(*out)
		if err := extract(ExtractArgs{Repo: *repo, Out: *out}); err != nil {
			fmt.Fprintln(os.Stderr, "extract failed:", err)
			os.Remove(*out)
			os.Exit(3)
		}
	case "run":
		fs := flag.NewFlagSet("run", flag.ExitOnError)
		seed := fs.Uint64("seed", 1, "PRNG seed")
		tier := fs.String("tier", "quick", "quick|thorough")
		out := fs.String("out", "", "output directory")
		repo := fs.String("repo", "/repo", "repository root")
		replay := fs.String("replay", "", "replay file")
		focus := fs.String("focus", "", "search hint")
		fs.Parse(os.Args[2:])
		a := RunArgs{Seed: *seed, Tier: *tier, OutDir: *out, Repo: *repo, Replay: *replay, Focus: *focus, Thorough: *tier == "thorough"}
		if err := run(a); err != nil {
			fmt.Fprintln(os.Stderr, "run failed:", err)
			os.Exit(3)
		}
	default:
		fmt.Fprintln(os.Stderr, "unknown mode", os.Args[1])
		os.Exit(2)
	}
}
