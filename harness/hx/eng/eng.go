// Package eng wraps the real engine (sqle.Engine + in-memory backend) for the harness binaries.
// It lives in its own package so that harnesses of leaf packages need not link the engine.
package eng

import (
	"context"
	"fmt"
	"io"
	"sort"
	"strings"
	"time"

	sqle "github.com/dolthub/go-mysql-server"
	"github.com/dolthub/go-mysql-server/memory"
	"github.com/dolthub/go-mysql-server/sql"
	"github.com/dolthub/go-mysql-server/sql/types"
)

type Eng struct {
	E   *sqle.Engine
	Pro *memory.DbProvider
	DBs []*memory.Database
}

// New builds a fresh engine over in-memory databases with the given names (first is current).
func New(dbnames ...string) *Eng {
	if len(dbnames) == 0 {
		dbnames = []string{"d"}
	}
	var dbs []sql.Database
	var mdbs []*memory.Database
	for _, n := range dbnames {
		db := memory.NewDatabase(n)
		dbs = append(dbs, db)
		mdbs = append(mdbs, db)
	}
	pro := memory.NewDBProvider(dbs...)
	e := sqle.NewDefault(pro)
	return &Eng{E: e, Pro: pro, DBs: mdbs}
}

var connID uint32 = 100

// Ctx returns a context bound to a *new* session (own transaction state, user variables, locks).
func (e *Eng) Ctx() *sql.Context {
	connID++
	bs := sql.NewBaseSessionWithClientServer("localhost:3306", sql.Client{Address: "localhost", User: "root"}, connID)
	sess := memory.NewSession(bs, e.Pro)
	ctx := sql.NewContext(context.Background(), sql.WithSession(sess))
	ctx.SetCurrentDatabase(e.DBs[0].Name())
	return ctx
}

// SameSession returns a fresh statement context on the session of ctx.
func SameSession(ctx *sql.Context) *sql.Context {
	n := sql.NewContext(context.Background(), sql.WithSession(ctx.Session))
	return n
}

type Res struct {
	Cols     []string
	Types    []string
	Nullable []bool
	Rows     [][]string // canonical text per value; SQL NULL is "NULL" with IsNull set
	Null     [][]bool
	Raw      []sql.Row
	Schema   sql.Schema
	Err      error
	Errno    int
	Panic    string
	Timeout  bool
	IsOk     bool
	Affected uint64
	InsertID uint64
	Info     string
}

// Class is the canonical outcome class: ok | err:<errno> | crash | timeout.
func (r *Res) Class() string {
	switch {
	case r.Panic != "":
		return "crash"
	case r.Timeout:
		return "timeout"
	case r.Err != nil:
		return fmt.Sprintf("err:%d", r.Errno)
	}
	return "ok"
}

// Text renders one value the way a text-protocol client sees it.
func Text(ctx *sql.Context, t sql.Type, v interface{}) (s string, isNull bool) {
	if v == nil {
		return "NULL", true
	}
	var out string
	p := func() (msg string) {
		defer func() {
			if r := recover(); r != nil {
				msg = fmt.Sprint(r)
			}
		}()
		val, err := t.SQL(ctx, nil, v)
		if err != nil {
			out = fmt.Sprintf("%v", v)
			return ""
		}
		if val.IsNull() {
			out = "NULL"
			isNull = true
			return ""
		}
		out = val.ToString()
		return ""
	}()
	if p != "" {
		return fmt.Sprintf("%v", v), false
	}
	return out, isNull
}

// Query runs one statement to completion on ctx's session. Never panics, never blocks forever.
func (e *Eng) Query(ctx *sql.Context, q string) *Res {
	// generous default: on a heavily loaded machine even a CREATE TABLE has been seen to exceed 20 s,
	// which must not turn into an observation ("timeout") of the code under test
	return e.QueryTimeout(ctx, q, 120*time.Second)
}

func (e *Eng) QueryTimeout(ctx *sql.Context, q string, d time.Duration) *Res {
	done := make(chan *Res, 1)
	go func() {
		r := &Res{}
		defer func() {
			if p := recover(); p != nil {
				r.Panic = fmt.Sprint(p)
			}
			done <- r
		}()
		sch, it, _, err := e.E.Query(ctx, q)
		if err != nil {
			r.Err = err
			r.Errno = Errno(err)
			return
		}
		r.Schema = sch
		for _, c := range sch {
			r.Cols = append(r.Cols, c.Name)
			r.Types = append(r.Types, c.Type.String())
			r.Nullable = append(r.Nullable, c.Nullable)
		}
		for {
			row, err := it.Next(ctx)
			if err == io.EOF {
				break
			}
			if err != nil {
				r.Err = err
				r.Errno = Errno(err)
				it.Close(ctx)
				return
			}
			if types.IsOkResult(row) {
				ok := types.GetOkResult(row)
				r.IsOk = true
				r.Affected = ok.RowsAffected
				r.InsertID = ok.InsertID
				if ok.Info != nil {
					r.Info = ok.Info.String()
				}
				continue
			}
			r.Raw = append(r.Raw, row)
			vals := make([]string, len(row))
			nulls := make([]bool, len(row))
			for i, v := range row {
				if i < len(sch) {
					vals[i], nulls[i] = Text(ctx, sch[i].Type, v)
				} else {
					vals[i] = fmt.Sprintf("%v", v)
				}
			}
			r.Rows = append(r.Rows, vals)
			r.Null = append(r.Null, nulls)
		}
		if err := it.Close(ctx); err != nil {
			r.Err = err
			r.Errno = Errno(err)
		}
	}()
	select {
	case r := <-done:
		return r
	case <-time.After(d):
		return &Res{Timeout: true}
	}
}

// Errno maps an engine error to its MySQL error number (1105 = unknown).
func Errno(err error) int {
	if err == nil {
		return 0
	}
	var n int
	func() {
		defer func() {
			if recover() != nil {
				n = 1105
			}
		}()
		n = sql.CastSQLError(err).Number()
	}()
	return n
}

// MustExec runs setup statements and panics on failure (harness bug, not an observation).
func (e *Eng) MustExec(ctx *sql.Context, qs ...string) {
	for _, q := range qs {
		r := e.Query(ctx, q)
		if r.Err != nil || r.Panic != "" || r.Timeout {
			panic(fmt.Sprintf("setup statement failed: %s: %v %s", q, r.Err, r.Panic))
		}
	}
}

// RowStrings renders rows as "(v1 v2 …)" items with hex-free, protocol-safe cell text:
// NULL ↦ null, everything else ↦ x<hex of the text>.
func RowStrings(r *Res) []string {
	out := make([]string, len(r.Rows))
	for i, row := range r.Rows {
		cells := make([]string, len(row))
		for j, c := range row {
			if r.Null[i][j] {
				cells[j] = "null"
			} else {
				cells[j] = "x" + fmt.Sprintf("%x", c)
			}
		}
		out[i] = "(" + strings.Join(cells, " ") + ")"
	}
	return out
}

// Canon renders a result as a canonical observation: rows sorted unless ordered.
func Canon(r *Res, ordered bool) string {
	if c := r.Class(); c != "ok" {
		return c
	}
	rows := RowStrings(r)
	if !ordered {
		sort.Strings(rows)
	}
	if r.IsOk && len(rows) == 0 {
		return fmt.Sprintf("ok affected=%d", r.Affected)
	}
	return "rows " + strings.Join(rows, " ")
}
