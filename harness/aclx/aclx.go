// Package aclx holds what the access-control harnesses (C39, C40, C41) share: an engine with accounts
// enabled, a recording wrapper around the real authorization handler, structured account-management
// statements (rendered to SQL for the engine and to s-expressions for the Lean driver), error
// classification and a canonical dump of the access-control state.
package aclx

import (
	"context"
	"fmt"
	"sort"
	"strings"

	"github.com/dolthub/vitess/go/mysql"
	ast "github.com/dolthub/vitess/go/vt/sqlparser"

	"github.com/dolthub/go-mysql-server/memory"
	"github.com/dolthub/go-mysql-server/sql"
	"github.com/dolthub/go-mysql-server/sql/mysql_db"
	"github.com/dolthub/go-mysql-server/verifharness/hx"
	"github.com/dolthub/go-mysql-server/verifharness/hx/eng"
)

// Scramble turns the run seed into the seed of the root generator. hx.NewRand(seed) starts the
// splitmix64 state at seed*gamma+c and every draw adds gamma, so consecutive seeds give the *same*
// stream shifted by one draw; hashing the seed first makes the runs independent.
func Scramble(seed uint64) uint64 {
	z := (seed + 0x6A09E667F3BCC909) * 0xD6E8FEB86659FD93
	z = (z ^ (z >> 32)) * 0xD6E8FEB86659FD93
	z = (z ^ (z >> 32)) * 0xD6E8FEB86659FD93
	return z ^ (z >> 32)
}

// ---------------------------------------------------------------------------------------------
// Recording authorization handler: delegates to the real one and logs every call.

type Call struct {
	Kind  string // ha | cd | ct
	Auth  string
	Tgt   string
	Names []string
	Extra bool
	Err   error
}

func (c Call) Payload() string {
	switch c.Kind {
	case "ha":
		return hx.List("ha", hx.HexS(c.Auth), hx.HexS(c.Tgt), hx.ListOf(c.Names, hx.HexS))
	case "cd":
		return hx.List("cd", hx.HexS(c.Names[0]))
	default:
		return hx.List("ct", hx.HexS(c.Names[0]), hx.HexS(c.Names[1]))
	}
}

var Log []Call

type recFactory struct{ inner sql.AuthorizationHandlerFactory }
type recHandler struct{ inner sql.AuthorizationHandler }

func (f recFactory) CreateHandler(cat sql.Catalog) sql.AuthorizationHandler {
	return recHandler{f.inner.CreateHandler(cat)}
}
func (h recHandler) NewQueryState(ctx *sql.Context) sql.AuthorizationQueryState {
	return h.inner.NewQueryState(ctx)
}
func (h recHandler) HandleAuth(ctx *sql.Context, st sql.AuthorizationQueryState, auth ast.AuthInformation) error {
	names := append([]string(nil), auth.TargetNames...)
	tt := auth.TargetType
	err := h.inner.HandleAuth(ctx, st, auth)
	Log = append(Log, Call{Kind: "ha", Auth: auth.AuthType, Tgt: tt, Names: names, Extra: auth.Extra != nil, Err: err})
	return err
}
func (h recHandler) HandleAuthNode(ctx *sql.Context, st sql.AuthorizationQueryState, node sql.AuthorizationCheckerNode) error {
	err := h.inner.HandleAuthNode(ctx, st, node)
	Log = append(Log, Call{Kind: "han", Err: err})
	return err
}
func (h recHandler) CheckDatabase(ctx *sql.Context, st sql.AuthorizationQueryState, db string) error {
	err := h.inner.CheckDatabase(ctx, st, db)
	Log = append(Log, Call{Kind: "cd", Names: []string{db}, Err: err})
	return err
}
func (h recHandler) CheckSchema(ctx *sql.Context, st sql.AuthorizationQueryState, db, sch string) error {
	err := h.inner.CheckSchema(ctx, st, db, sch)
	Log = append(Log, Call{Kind: "cd", Names: []string{db}, Err: err})
	return err
}
func (h recHandler) CheckTable(ctx *sql.Context, st sql.AuthorizationQueryState, db, sch, t string) error {
	err := h.inner.CheckTable(ctx, st, db, sch, t)
	Log = append(Log, Call{Kind: "ct", Names: []string{db, t}, Err: err})
	return err
}

var installed bool

// Install wraps the process-wide authorization handler factory (idempotent). Must run before the
// first engine is built.
func Install() {
	if !installed {
		sql.SetAuthorizationHandlerFactory(recFactory{sql.GetAuthorizationHandlerFactory()})
		installed = true
	}
}

// ---------------------------------------------------------------------------------------------
// Engine with accounts.

type Env struct {
	E     *eng.Eng
	Db    *mysql_db.MySQLDb
	Root  *sql.Context
	sess  map[string]*sql.Context
	conn  uint32
	Saved []byte // last bytes handed to the persister
}

type memPersister struct{ env *Env }

func (p memPersister) Persist(ctx *sql.Context, data []byte) error {
	p.env.Saved = append([]byte(nil), data...)
	return nil
}

// SetupSQL creates the fixed objects every history starts from.
var SetupSQL = []string{
	"CREATE TABLE d.t (a int primary key, b int)",
	"CREATE TABLE d.s (a int primary key)",
	"CREATE TABLE e.t (a int primary key)",
	"INSERT INTO d.t VALUES (1,1),(2,2)",
	"INSERT INTO d.s VALUES (1)",
	"INSERT INTO e.t VALUES (1)",
	"CREATE PROCEDURE d.p() SELECT 1",
}

func NewEnv(withObjects bool) *Env {
	Install()
	env := &Env{E: eng.New("d", "e"), sess: map[string]*sql.Context{}, conn: 1000}
	env.Db = env.E.E.Analyzer.Catalog.MySQLDb
	env.Db.SetPersister(memPersister{env})
	env.Db.AddRootAccount()
	env.Root = env.Session("root", "localhost")
	if withObjects {
		for _, q := range SetupSQL {
			r := env.Run(env.Root, "d", q)
			if r.Class() != "ok" {
				panic(fmt.Sprintf("setup failed: %s: %v %s", q, r.Err, r.Panic))
			}
		}
	}
	return env
}

// NewBareEnv is an engine without any account (not even root) and without user tables: the target of
// MySQLDb.LoadData.
func NewBareEnv() *Env {
	Install()
	env := &Env{E: eng.New("d", "e"), sess: map[string]*sql.Context{}, conn: 5000}
	env.Db = env.E.E.Analyzer.Catalog.MySQLDb
	env.Db.SetPersister(memPersister{env})
	env.Root = env.Session("root", "localhost")
	return env
}

// Session returns the (cached) session of user@addr.
func (env *Env) Session(user, addr string) *sql.Context {
	k := user + "\x00" + addr
	if c, ok := env.sess[k]; ok {
		return c
	}
	env.conn++
	bs := sql.NewBaseSessionWithClientServer("localhost:3306", sql.Client{Address: addr, User: user}, env.conn)
	sess := memory.NewSession(bs, env.E.Pro)
	ctx := sql.NewContext(context.Background(), sql.WithSession(sess))
	env.sess[k] = ctx
	return ctx
}

// Run executes one statement on the session with the given current database; the recorded
// authorization calls are in Log afterwards.
func (env *Env) Run(sess *sql.Context, cur string, q string) *eng.Res {
	ctx := eng.SameSession(sess)
	ctx.SetCurrentDatabase(cur)
	Log = Log[:0]
	return env.E.Query(ctx, q)
}

// Handler is the (recording) authorization handler of the engine's catalog.
func (env *Env) Handler() sql.AuthorizationHandler { return env.E.E.Analyzer.Catalog.AuthHandler }

// ---------------------------------------------------------------------------------------------
// Outcome classes (mirrored by Gms.Priv.Outcome.str / ExecErr.str).

func Classify(err error, panicMsg string) string {
	if panicMsg != "" {
		return "crash"
	}
	if err == nil {
		return "ok"
	}
	switch {
	case sql.ErrPrivilegeCheckFailed.Is(err):
		return "denied"
	case sql.ErrDatabaseAccessDeniedForUser.Is(err):
		return "dbdenied"
	case sql.ErrTableAccessDeniedForUser.Is(err):
		return "tbldenied"
	case sql.ErrGrantRevokeIllegalPrivilege.Is(err), sql.ErrGrantRevokeIllegalPrivilegeWithMessage.Is(err):
		return "err:illegal"
	case sql.ErrGrantUserDoesNotExist.Is(err), sql.ErrUserDeletionFailure.Is(err):
		return "err:nouser"
	case sql.ErrRevokeUserDoesNotExist.Is(err):
		return "err:nogrant"
	case sql.ErrGrantRevokeRoleDoesNotExist.Is(err), sql.ErrRoleDeletionFailure.Is(err):
		return "err:norole"
	case sql.ErrUserCreationFailure.Is(err), sql.ErrRoleCreationFailure.Is(err):
		return "err:exists"
	case sql.ErrNoDatabaseSelected.Is(err):
		return "err:nodb"
	}
	if se, ok := err.(*mysql.SQLError); ok && se.Num == mysql.ERAccessDeniedError {
		return "noaccount"
	}
	msg := err.Error()
	for _, p := range []string{"AuthType", "TargetType", "CALL ", "expected tables in groups"} {
		if strings.HasPrefix(msg, p) {
			return "autherr"
		}
	}
	return "err:other"
}

// ---------------------------------------------------------------------------------------------
// Structured account-management statements.

type Acct struct{ Name, Host string }

func (a Acct) SQL() string     { return "'" + a.Name + "'@'" + a.Host + "'" }
func (a Acct) Payload() string { return hx.List(hx.HexS(a.Name), hx.HexS(a.Host)) }

type PPriv struct {
	Type int    // plan.PrivilegeType
	Dyn  string // lower-case dynamic privilege name
}

// PlanPrivSQL is the keyword of each plan.PrivilegeType value (0 = ALL … 32 = USAGE).
var PlanPrivSQL = []string{"ALL", "ALTER", "ALTER ROUTINE", "CREATE", "CREATE ROLE", "CREATE ROUTINE", "CREATE TABLESPACE",
	"CREATE TEMPORARY TABLES", "CREATE USER", "CREATE VIEW", "DELETE", "DROP", "DROP ROLE", "EVENT", "EXECUTE", "FILE",
	"GRANT OPTION", "INDEX", "INSERT", "LOCK TABLES", "PROCESS", "REFERENCES", "RELOAD", "REPLICATION CLIENT",
	"REPLICATION SLAVE", "SELECT", "SHOW DATABASES", "SHOW VIEW", "SHUTDOWN", "SUPER", "TRIGGER", "UPDATE", "USAGE"}

// PlanToSQLPriv maps plan.PrivilegeType to sql.PrivilegeType (-1: none) — the harness's own copy of
// the documented meaning of each keyword, used by the model-free oracle only.
var PlanToSQLPriv = []int{-1, 13, 24, 4, 29, 23, 28, 16, 25, 21, 3, 5, 30, 26, 18, 9, 10, 12, 1, 17, 8, 11, 6, 20, 19, 0, 14, 22, 7, 15, 27, 2, -1}

func (p PPriv) SQL() string {
	if p.Type == 33 {
		return strings.ToUpper(p.Dyn)
	}
	return PlanPrivSQL[p.Type]
}
func (p PPriv) Payload() string {
	return hx.List(fmt.Sprint(p.Type), hx.HexS(p.Dyn), "0")
}

type Stmt struct {
	Kind   string // none cu cr du dr grant revoke gr rr
	Flag   bool   // IF NOT EXISTS / IF EXISTS / WITH ADMIN OPTION
	LvDb   string // "*" | "" | name
	LvTbl  string // "*" | name
	ObjTyp int    // 0 any 1 table 2 function 3 procedure
	Privs  []PPriv
	Users  []Acct
	Roles  []Acct
	WGO    bool
	Text   string // SQL for Kind none
}

func b01(b bool) string {
	if b {
		return "1"
	}
	return "0"
}

func qid(s string) string { return "`" + s + "`" }

func (s Stmt) level() string {
	obj := ""
	switch s.ObjTyp {
	case 1:
		obj = "TABLE "
	case 2:
		obj = "FUNCTION "
	case 3:
		obj = "PROCEDURE "
	}
	switch {
	case s.LvDb == "*":
		return obj + "*.*"
	case s.LvDb == "" && s.LvTbl == "*":
		return obj + "*"
	case s.LvDb == "":
		return obj + qid(s.LvTbl)
	case s.LvTbl == "*":
		return obj + qid(s.LvDb) + ".*"
	}
	return obj + qid(s.LvDb) + "." + qid(s.LvTbl)
}

func accts(as []Acct) string {
	parts := make([]string, len(as))
	for i, a := range as {
		parts[i] = a.SQL()
	}
	return strings.Join(parts, ", ")
}

func roleNames(as []Acct) string {
	parts := make([]string, len(as))
	for i, a := range as {
		if a.Host == "%" {
			parts[i] = "'" + a.Name + "'"
		} else {
			parts[i] = a.SQL()
		}
	}
	return strings.Join(parts, ", ")
}

func (s Stmt) SQL() string {
	privs := make([]string, len(s.Privs))
	for i, p := range s.Privs {
		privs[i] = p.SQL()
	}
	switch s.Kind {
	case "none":
		return s.Text
	case "cu":
		if s.Flag {
			return "CREATE USER IF NOT EXISTS " + accts(s.Users)
		}
		return "CREATE USER " + accts(s.Users)
	case "cr":
		if s.Flag {
			return "CREATE ROLE IF NOT EXISTS " + roleNames(s.Roles)
		}
		return "CREATE ROLE " + roleNames(s.Roles)
	case "du":
		if s.Flag {
			return "DROP USER IF EXISTS " + accts(s.Users)
		}
		return "DROP USER " + accts(s.Users)
	case "dr":
		if s.Flag {
			return "DROP ROLE IF EXISTS " + roleNames(s.Roles)
		}
		return "DROP ROLE " + roleNames(s.Roles)
	case "grant":
		q := "GRANT " + strings.Join(privs, ", ") + " ON " + s.level() + " TO " + accts(s.Users)
		if s.WGO {
			q += " WITH GRANT OPTION"
		}
		return q
	case "revoke":
		return "REVOKE " + strings.Join(privs, ", ") + " ON " + s.level() + " FROM " + accts(s.Users)
	case "gr":
		q := "GRANT " + roleNames(s.Roles) + " TO " + accts(s.Users)
		if s.Flag {
			q += " WITH ADMIN OPTION"
		}
		return q
	case "rr":
		return "REVOKE " + roleNames(s.Roles) + " FROM " + accts(s.Users)
	}
	panic("unknown statement kind " + s.Kind)
}

func (s Stmt) Payload() string {
	us := hx.ListOf(s.Users, Acct.Payload)
	rs := hx.ListOf(s.Roles, Acct.Payload)
	ps := hx.ListOf(s.Privs, PPriv.Payload)
	switch s.Kind {
	case "none":
		return "(none)"
	case "cu", "du":
		return hx.List(s.Kind, b01(s.Flag), us)
	case "cr", "dr":
		return hx.List(s.Kind, b01(s.Flag), rs)
	case "grant":
		return hx.List("grant", hx.HexS(s.LvDb), hx.HexS(s.LvTbl), fmt.Sprint(s.ObjTyp), ps, us, b01(s.WGO), "0")
	case "revoke":
		return hx.List("revoke", hx.HexS(s.LvDb), hx.HexS(s.LvTbl), fmt.Sprint(s.ObjTyp), ps, us, "0")
	case "gr":
		return hx.List("gr", rs, us, b01(s.Flag))
	case "rr":
		return hx.List("rr", rs, us, "0", "0")
	}
	panic("unknown statement kind " + s.Kind)
}

// ---------------------------------------------------------------------------------------------
// Canonical dump of the access-control state (accounts, privilege sets, role edges).

func privNames(ps []sql.PrivilegeType) string {
	parts := make([]string, len(ps))
	for i, p := range ps {
		parts[i] = fmt.Sprint(int(p))
	}
	return strings.Join(parts, ",")
}

// DumpAccess renders every account with its complete privilege set and every role edge, sorted.
// withAuth adds the credential fields (plugin, authentication string, lock flag).
func DumpAccess(db *mysql_db.MySQLDb, withAuth bool) string {
	rd := db.Reader()
	defer rd.Close()
	var lines []string
	rd.VisitUsers(func(u *mysql_db.User) {
		var b strings.Builder
		fmt.Fprintf(&b, "user %q@%q role=%v", u.User, u.Host, u.IsRole)
		if withAuth {
			fmt.Fprintf(&b, " locked=%v plugin=%q auth=%q super=%v ident=%q ssl=%q/%q/%q/%q attr=%v", u.Locked, u.Plugin, u.AuthString,
				u.IsSuperUser, u.Identity, u.SslType, u.SslCipher, u.X509Issuer, u.X509Subject, u.Attributes != nil)
			if u.Attributes != nil {
				fmt.Fprintf(&b, ":%q", *u.Attributes)
			}
		}
		ps := u.PrivilegeSet
		fmt.Fprintf(&b, " G[%s] Dy[%s] Dn[%s]", privNames(ps.ToSlice()), strings.Join(ps.ToSliceDynamic(true), ","), strings.Join(ps.ToSliceDynamic(false), ","))
		for _, d := range ps.GetDatabases() {
			fmt.Fprintf(&b, " db %q[%s]", strings.ToLower(d.Name()), privNames(d.ToSlice()))
			for _, t := range d.GetTables() {
				fmt.Fprintf(&b, " t %q[%s]", strings.ToLower(t.Name()), privNames(t.ToSlice()))
			}
			var rs []string
			for _, r := range d.GetRoutines() {
				if r.Count() > 0 {
					rs = append(rs, fmt.Sprintf(" r %q/%s[%s]", strings.ToLower(r.RoutineName()), r.RoutineType(), privNames(r.ToSlice())))
				}
			}
			sort.Strings(rs)
			b.WriteString(strings.Join(rs, ""))
		}
		lines = append(lines, b.String())
	})
	rd.VisitRoleEdges(func(e *mysql_db.RoleEdge) {
		lines = append(lines, fmt.Sprintf("edge %q@%q -> %q@%q admin=%v", e.FromUser, e.FromHost, e.ToUser, e.ToHost, e.WithAdminOption))
	})
	sort.Strings(lines)
	return strings.Join(lines, "\n")
}

// DumpData renders the user tables of databases d and e through the root session.
func (env *Env) DumpData() string {
	var b strings.Builder
	for _, d := range []string{"d", "e"} {
		r := env.Run(env.Root, d, "SHOW TABLES")
		var tbls []string
		for _, row := range r.Rows {
			tbls = append(tbls, row[0])
		}
		sort.Strings(tbls)
		for _, t := range tbls {
			c := env.Run(env.Root, d, "SHOW CREATE TABLE "+qid(t))
			fmt.Fprintf(&b, "%s.%s %v\n", d, t, c.Rows)
			rows := env.Run(env.Root, d, "SELECT * FROM "+qid(t))
			fmt.Fprintf(&b, "  %s\n", eng.Canon(rows, false))
		}
	}
	return b.String()
}
