package sqlgen

// Corpus: hand-written regression / witness cases that run first on every run. One database with
// NULLs and duplicates; one query per operator of the fragment (the NULL corner of each).

type CorpusQuery struct {
	Q       *Query
	Tys     []Ty
	Ordered bool
}

// CorpusWitness: the witness of a known finding, with the printer options its spelling needs.
type CorpusWitness struct {
	CorpusQuery
	Opt Printer
}

type CorpusCase struct {
	Db        *Db
	Queries   []CorpusQuery
	Witnesses []CorpusWitness
}

func ints(vs ...interface{}) []Value {
	out := make([]Value, len(vs))
	for i, v := range vs {
		switch x := v.(type) {
		case nil:
			out[i] = Null()
		case int:
			out[i] = Int(int64(x))
		case string:
			out[i] = Str(x)
		}
	}
	return out
}

func Corpus() []CorpusCase {
	t0 := &Table{Tys: []Ty{TInt, TInt}, NotNull: []bool{false, false},
		Rows: [][]Value{ints(1, 2), ints(1, nil), ints(nil, 3), ints(2, 2), ints(1, 2)}}
	t1 := &Table{Tys: []Ty{TInt, TInt, TStr}, NotNull: []bool{false, true, false},
		Rows: [][]Value{ints(1, 5, "a"), ints(2, 6, nil), ints(nil, 7, "B"), ints(3, 8, "a")}}
	t2 := &Table{Tys: []Ty{TInt}, NotNull: []bool{false}}
	db := &Db{Tables: []*Table{t0, t1, t2}}
	i, ii := []Ty{TInt}, []Ty{TInt, TInt}
	c := func(d, k int) *Expr { return Col(d, k) }
	n := func(k int) *Expr { return Lit(Int(int64(k))) }
	notIn := Not(InSub(c(0, 0), Project([]*Expr{c(0, 0)}, TableQ(1))))
	notIn.Alt = true
	notInNoNull := Not(InSub(c(0, 0), Project([]*Expr{c(0, 1)}, TableQ(1))))
	notInNoNull.Alt = true
	notExists := Not(Exists(Filter(Cmp("eq", c(0, 0), c(1, 0)), TableQ(1))))
	notExists.Alt = true
	notInList := Not(In(c(0, 0), []*Expr{n(2), Lit(Null())}))
	notInList.Alt = true
	notInNullLit := Not(InSub(c(0, 0), Project([]*Expr{Lit(Null())}, TableQ(1))))
	notInNullLit.Alt = true
	qs := []CorpusQuery{
		{TableQ(0), ii, false},
		{Filter(Cmp("lt", c(0, 0), c(0, 1)), TableQ(0)), ii, false},
		{Filter(Not(Cmp("lt", c(0, 0), c(0, 1))), TableQ(0)), ii, false},
		{Filter(Un("isnull", Cmp("lt", c(0, 0), c(0, 1))), TableQ(0)), ii, false},
		// x NOT IN (… NULL …) is never TRUE
		{Filter(notIn, TableQ(0)), ii, false},
		{Filter(notInNoNull, TableQ(0)), ii, false},
		{Filter(notInList, TableQ(0)), ii, false},
		{Filter(InSub(c(0, 0), Project([]*Expr{c(0, 0)}, TableQ(1))), TableQ(0)), ii, false},
		{Filter(Exists(Filter(Cmp("eq", c(0, 0), c(1, 0)), TableQ(1))), TableQ(0)), ii, false},
		{Filter(notExists, TableQ(0)), ii, false},
		// NOT IN over an empty subquery is TRUE even for NULL
		{Filter(Not(InSub(c(0, 0), TableQ(2))), TableQ(0)), ii, false},
		// outer joins pad with NULL
		{Join("left", Cmp("eq", c(0, 0), c(0, 2)), TableQ(0), TableQ(1)), []Ty{TInt, TInt, TInt, TInt, TStr}, false},
		{Join("right", Cmp("eq", c(0, 0), c(0, 2)), TableQ(0), TableQ(1)), []Ty{TInt, TInt, TInt, TInt, TStr}, false},
		{Join("inner", Cmp("eq", c(0, 0), c(0, 2)), TableQ(0), TableQ(1)), []Ty{TInt, TInt, TInt, TInt, TStr}, false},
		{Join("left", Lit(Int(0)), TableQ(0), TableQ(2)), []Ty{TInt, TInt, TInt}, false},
		// grouping: NULLs form one group; aggregates skip NULLs; empty input
		{Group([]*Expr{c(0, 0)}, []string{"countstar", "count", "sum", "min", "max"}, []*Expr{n(1), c(0, 1), c(0, 1), c(0, 1), c(0, 1)}, TableQ(0)),
			[]Ty{TInt, TInt, TInt, TInt, TInt, TInt}, false},
		{Group(nil, []string{"countstar", "sum", "min"}, []*Expr{n(1), c(0, 0), c(0, 0)}, TableQ(2)), []Ty{TInt, TInt, TInt}, false},
		{Group([]*Expr{c(0, 0)}, []string{"countstar"}, []*Expr{n(1)}, TableQ(2)), ii, false},
		{Filter(Cmp("gt", c(0, 1), n(1)), Group([]*Expr{c(0, 0)}, []string{"countstar"}, []*Expr{n(1)}, TableQ(0))), ii, false},
		{Group([]*Expr{c(0, 2)}, []string{"min", "countdistinct"}, []*Expr{c(0, 2), c(0, 2)}, TableQ(1)), []Ty{TStr, TStr, TInt}, false},
		// DISTINCT and set operations treat NULLs as equal
		{Distinct(TableQ(0)), ii, false},
		{SetOp("union", false, Project([]*Expr{c(0, 0)}, TableQ(0)), Project([]*Expr{c(0, 0)}, TableQ(1))), i, false},
		{SetOp("union", true, Project([]*Expr{c(0, 0)}, TableQ(0)), Project([]*Expr{c(0, 0)}, TableQ(1))), i, false},
		{SetOp("intersect", true, Project([]*Expr{c(0, 0)}, TableQ(0)), Project([]*Expr{c(0, 0)}, TableQ(1))), i, false},
		{SetOp("intersect", false, Project([]*Expr{c(0, 0)}, TableQ(0)), Project([]*Expr{c(0, 0)}, TableQ(1))), i, false},
		{SetOp("except", true, Project([]*Expr{c(0, 0)}, TableQ(0)), Project([]*Expr{c(0, 0)}, TableQ(1))), i, false},
		{SetOp("except", false, Project([]*Expr{c(0, 0)}, TableQ(0)), Project([]*Expr{c(0, 0)}, TableQ(1))), i, false},
		// ORDER BY: NULLs first ascending, last descending; LIMIT/OFFSET slice
		{OrderBy([]*Expr{c(0, 0), c(0, 1)}, []bool{false, true}, TableQ(0)), ii, true},
		{Limit(2, 1, OrderBy([]*Expr{c(0, 0), c(0, 1)}, []bool{true, false}, Distinct(TableQ(0)))), ii, true},
		{Limit(0, 0, OrderBy([]*Expr{c(0, 0), c(0, 1)}, []bool{true, false}, TableQ(0))), ii, true},
		// scalar subquery (correlated), CASE, COALESCE, <=>, arithmetic with NULL
		{Project([]*Expr{c(0, 0), Scalar(Group(nil, []string{"max"}, []*Expr{c(0, 1)}, Filter(Cmp("eq", c(0, 0), c(1, 0)), TableQ(1))))}, TableQ(0)), ii, false},
		{Project([]*Expr{Ite(Cmp("eq", c(0, 0), n(1)), n(10), Ite(Un("isnull", c(0, 0)), n(20), Lit(Null()))),
			Bin("coalesce", c(0, 0), Bin("coalesce", c(0, 1), n(0)))}, TableQ(0)), ii, false},
		{Project([]*Expr{Cmp("nseq", c(0, 0), c(0, 1)), Arith("add", c(0, 0), Arith("mul", c(0, 1), n(-2)))}, TableQ(0)), ii, false},
		{Project([]*Expr{Bin("and", c(0, 0), c(0, 1)), Bin("or", c(0, 0), Lit(Null()))}, TableQ(0)), ii, false},
		{Project([]*Expr{Between(c(0, 0), n(1), Lit(Null())), Un("istrue", Cmp("eq", c(0, 0), n(1)))}, TableQ(0)), ii, false},
		{Filter(Cmp("lt", c(0, 2), Lit(Str("b"))), TableQ(1)), []Ty{TInt, TInt, TStr}, false},
	}
	// ---- witnesses of the known findings (regions of lean/Gms/Model/SqlQuirks.lean) ----
	ws := []CorpusWitness{
		// in_subquery_null_literal: x NOT IN (SELECT NULL FROM t1) is TRUE in the engine
		{CorpusQuery{Filter(notInNullLit, TableQ(0)), ii, false}, Printer{}},
		// exists_left_join_const_false: WHERE EXISTS (… t1 LEFT JOIN t2 ON 0) is FALSE in the engine
		{CorpusQuery{Filter(Exists(Join("left", Lit(Int(0)), TableQ(1), TableQ(2))), TableQ(0)), ii, false}, Printer{}},
		// setop_offset_before_sort: UNION ALL … ORDER BY 1 DESC LIMIT 3 OFFSET 2 skips before sorting
		{CorpusQuery{Limit(3, 2, OrderBy([]*Expr{c(0, 0)}, []bool{true}, SetOp("union", true, Project([]*Expr{c(0, 1)}, TableQ(0)), Project([]*Expr{c(0, 1)}, TableQ(1))))),
			i, true}, Printer{AllowSetopOffset: true}},
	}
	return []CorpusCase{{Db: db, Queries: qs, Witnesses: ws}}
}
