package sqlgen

import (
	"fmt"
	"math/big"
	"sort"
	"strings"

	"github.com/dolthub/go-mysql-server/sql"
	"github.com/dolthub/go-mysql-server/verifharness/hx"
	"github.com/dolthub/go-mysql-server/verifharness/hx/eng"
)

// CanonInt canonicalises the client-visible text of an integer-typed cell: SUM() is a DOUBLE or
// DECIMAL in the engine, so "4", "4.0" and "4.000" all denote the integer 4. Anything that is
// not an integral number is kept (prefixed with `?`), so that it differs from every model output.
func CanonInt(text string) string {
	r, ok := new(big.Rat).SetString(text)
	if !ok || !r.IsInt() {
		return "?" + hx.HexS(text)
	}
	return r.Num().String()
}

// Canon renders an engine result as the observation format of lean/Gms/Driver/SqlProto.lean.
func Canon(r *eng.Res, tys []Ty, ordered bool) string {
	if c := r.Class(); c != "ok" {
		return c
	}
	rows := make([]string, len(r.Rows))
	for i, row := range r.Rows {
		if len(row) != len(tys) {
			return fmt.Sprintf("width:%d", len(row))
		}
		cells := make([]string, len(row))
		for j, c := range row {
			switch {
			case r.Null[i][j]:
				cells[j] = "null"
			case tys[j] == TStr:
				cells[j] = hx.HexS(c)
			default:
				cells[j] = CanonInt(c)
			}
		}
		rows[i] = "(" + strings.Join(cells, " ") + ")"
	}
	if !ordered {
		sort.Strings(rows)
	}
	return "rows " + strings.Join(rows, " ")
}

// CountOps counts relational operators (nodes other than base tables), including subqueries.
func CountOps(q *Query) int {
	if q == nil {
		return 0
	}
	n := 0
	if q.Op != "table" {
		n = 1
	}
	n += CountOps(q.L) + CountOps(q.R)
	for _, e := range append(append([]*Expr{q.P}, q.Es...), q.Args...) {
		n += countOpsE(e)
	}
	return n
}

func countOpsE(e *Expr) int {
	if e == nil {
		return 0
	}
	n := CountOps(e.Q)
	for _, a := range e.Args {
		n += countOpsE(a)
	}
	for _, a := range e.List {
		n += countOpsE(a)
	}
	return n
}

func (d *Db) HasNull() bool {
	for _, t := range d.Tables {
		for _, r := range t.Rows {
			for _, v := range r {
				if v.Null {
					return true
				}
			}
		}
	}
	return false
}

// Runner runs cases of one database after another on a fresh engine per database.
type Runner struct {
	Out *hx.Out
	Tag string // head atom of the payload (selects the handler in the Lean driver)

	Db  *Db
	e   *eng.Eng
	ctx *sql.Context
	dbS string
}

// Open creates a fresh engine and loads db.
func (rn *Runner) Open(db *Db) {
	rn.Db = db
	rn.e = eng.New("d")
	rn.ctx = rn.e.Ctx()
	rn.e.MustExec(rn.ctx, db.Setup()...)
	rn.dbS = db.Sexp() + " " + hx.ListOf(append([]string{"setup"}, db.Setup()...), func(s string) string {
		if s == "setup" {
			return s
		}
		return hx.HexS(s)
	})
}

// DbSexp is the `(db …) (setup …)` part of a payload for the current database.
func (rn *Runner) DbSexp() string { return rn.dbS }

// Exec runs one statement on the current engine.
func (rn *Runner) Exec(sqlText string) *eng.Res { return rn.e.Query(rn.ctx, sqlText) }

// Case prints q with p, runs it on the engine, and records the case for the Lean driver:
// payload `(<tag> (ordered 0|1) <db> (q <term>) (sql x…))`.
func (rn *Runner) Case(q *Query, tys []Ty, ordered bool, p *Printer) (id, obs string, res *eng.Res) {
	text := p.SQL(q)
	res = rn.e.Query(rn.ctx, text)
	obs = Canon(res, tys, ordered)
	ord := "0"
	if ordered {
		ord = "1"
	}
	var feats []string
	for f := range p.Feats {
		feats = append(feats, f)
	}
	sort.Strings(feats)
	payload := fmt.Sprintf("(%s (ordered %s) %s (q %s) (feat %s) (sql %s))", rn.Tag, ord, rn.dbS, q.Sexp(), strings.Join(feats, " "), hx.HexS(text))
	nontrivial := len(res.Rows) > 0 && CountOps(q) >= 2 && rn.Db.HasNull()
	id = rn.Out.Case(payload, obs, nontrivial)
	rn.Out.Stat("cases")
	if res.Class() != "ok" {
		rn.Out.Stat("engine:" + res.Class())
	} else if len(res.Rows) > 0 {
		rn.Out.Stat("result:non-empty")
	} else {
		rn.Out.Stat("result:empty")
	}
	if ordered {
		rn.Out.Stat("ordered")
	}
	if p.NoFuse {
		rn.Out.Stat("style:nested")
	}
	if p.CTE {
		rn.Out.Stat("style:cte")
	}
	return id, obs, res
}
