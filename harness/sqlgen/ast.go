// Package sqlgen is the Go mirror of the shared SQL reference semantics in
// lean/Gms/Model/Sql.lean + Rel.lean: query terms (schema + data + query), their s-expression
// form (read by lean/Gms/Driver/SqlProto.lean), their SQL text (run on the real engine), and a
// seeded, type-directed generator. It contains NO evaluator: the only semantics is the Lean one.
//
// Column references are de Bruijn pairs (Depth, Idx): depth 0 is the row the expression is
// evaluated on (for a join condition: left row ++ right row), depth k the row of the k-th
// enclosing query block.
package sqlgen

import (
	"encoding/hex"
	"fmt"
	"strconv"
	"strings"
)

type Ty int

const (
	TInt Ty = iota
	TStr
	TAny // type of a NULL literal
	// TBool is a generator-side refinement of TInt (the Lean model has no boolean type: a predicate
	// is the integer 1/0/NULL): the column holds the value of a predicate. The engine's hashing
	// operators distinguish TRUE from 1 (observed defect), so the generator keeps such columns out of
	// DISTINCT / GROUP BY keys / set operations / IN-subquery outputs by adding `+ 0`.
	TBool
)

func (t Ty) Sexp() string {
	if t == TStr {
		return "s"
	}
	return "i"
}

// Value is NULL, an integer or a byte string.
type Value struct {
	Null  bool
	IsStr bool
	I     int64
	S     string
}

func Null() Value         { return Value{Null: true} }
func Int(i int64) Value   { return Value{I: i} }
func Str(s string) Value  { return Value{IsStr: true, S: s} }
func (v Value) Ty() Ty {
	switch {
	case v.Null:
		return TAny
	case v.IsStr:
		return TStr
	}
	return TInt
}

func (v Value) Sexp() string {
	switch {
	case v.Null:
		return "null"
	case v.IsStr:
		return "x" + hex.EncodeToString([]byte(v.S))
	}
	return strconv.FormatInt(v.I, 10)
}

// SQL literal. Strings are restricted by the generator to [A-Za-z0-9 ]*.
func (v Value) SQL() string {
	switch {
	case v.Null:
		return "NULL"
	case v.IsStr:
		return "'" + strings.ReplaceAll(v.S, "'", "''") + "'"
	}
	if v.I < 0 {
		return "(" + strconv.FormatInt(v.I, 10) + ")"
	}
	return strconv.FormatInt(v.I, 10)
}

// Table is a base table: column j is named c<j>.
type Table struct {
	Tys     []Ty
	NotNull []bool
	Rows    [][]Value
	// Extra DDL inside the CREATE TABLE parentheses (e.g. ", PRIMARY KEY (c0)", ", KEY (c1)").
	Extra string
}

type Db struct{ Tables []*Table }

func (t *Table) Sexp() string {
	var b strings.Builder
	b.WriteString("(tab (")
	for i, ty := range t.Tys {
		if i > 0 {
			b.WriteByte(' ')
		}
		b.WriteString(ty.Sexp())
	}
	b.WriteString(")")
	for _, r := range t.Rows {
		b.WriteString(" (")
		for i, v := range r {
			if i > 0 {
				b.WriteByte(' ')
			}
			b.WriteString(v.Sexp())
		}
		b.WriteString(")")
	}
	b.WriteString(")")
	return b.String()
}

func (d *Db) Sexp() string {
	parts := make([]string, len(d.Tables))
	for i, t := range d.Tables {
		parts[i] = t.Sexp()
	}
	return "(db " + strings.Join(parts, " ") + ")"
}

// Setup returns the statements that create and fill the tables t0, t1, …
func (d *Db) Setup() []string {
	var out []string
	for n, t := range d.Tables {
		cols := make([]string, len(t.Tys))
		for j, ty := range t.Tys {
			s := fmt.Sprintf("c%d ", j)
			if ty == TStr {
				s += "varchar(16)"
			} else {
				s += "int"
			}
			if t.NotNull[j] {
				s += " NOT NULL"
			}
			cols[j] = s
		}
		out = append(out, fmt.Sprintf("CREATE TABLE t%d (%s%s)", n, strings.Join(cols, ", "), t.Extra))
		if len(t.Rows) > 0 {
			rows := make([]string, len(t.Rows))
			for i, r := range t.Rows {
				vs := make([]string, len(r))
				for j, v := range r {
					vs[j] = v.SQL()
				}
				rows[i] = "(" + strings.Join(vs, ", ") + ")"
			}
			out = append(out, fmt.Sprintf("INSERT INTO t%d VALUES %s", n, strings.Join(rows, ", ")))
		}
	}
	return out
}

// Expr: Op is one of
//
//	lit col neg arith cmp and or xor not isnull istrue isfalse in between ite coalesce
//	exists insub scalar
type Expr struct {
	Op   string
	Sub  string // arith: add sub mul idiv mod; cmp: eq ne lt le gt ge nseq
	V    Value
	D, I int
	Args []*Expr // operands (in: Args[0] is the tested expression, List the list)
	List []*Expr
	Q    *Query
	// Alt selects an alternative but equivalent SQL spelling (NOT IN / NOT EXISTS / IS NOT NULL /
	// NOT BETWEEN for `not`, IF() for `ite`, IFNULL() for `coalesce`); it is not part of the term.
	Alt bool
}

// Query: Op is one of table filter project join group distinct setop orderby limit.
type Query struct {
	Op   string
	N    int    // table number; limit count
	Off  int    // limit offset
	Kind string // join: inner left right; setop: union intersect except
	All  bool
	P    *Expr   // filter predicate / join condition
	Es   []*Expr // project list / group keys / order keys
	Fns  []string
	Args []*Expr
	Desc []bool
	L, R *Query // L is the only child of unary nodes
	// Barrier: print this node's input as a derived table even where it could be merged into the
	// same SELECT block (not part of the term; the two spellings are equivalent SQL).
	Barrier bool
	// Cross: print an inner join whose condition is the literal 1 as CROSS JOIN.
	Cross bool
}

func exprsSexp(es []*Expr) string {
	parts := make([]string, len(es))
	for i, e := range es {
		parts[i] = e.Sexp()
	}
	return "(" + strings.Join(parts, " ") + ")"
}

func (e *Expr) Sexp() string {
	switch e.Op {
	case "lit":
		return "(lit " + e.V.Sexp() + ")"
	case "col":
		return fmt.Sprintf("(col %d %d)", e.D, e.I)
	case "arith", "cmp":
		return fmt.Sprintf("(%s %s %s %s)", e.Op, e.Sub, e.Args[0].Sexp(), e.Args[1].Sexp())
	case "in":
		return fmt.Sprintf("(in %s %s)", e.Args[0].Sexp(), exprsSexp(e.List))
	case "exists", "scalar":
		return fmt.Sprintf("(%s %s)", e.Op, e.Q.Sexp())
	case "insub":
		return fmt.Sprintf("(insub %s %s)", e.Args[0].Sexp(), e.Q.Sexp())
	}
	parts := []string{e.Op}
	for _, a := range e.Args {
		parts = append(parts, a.Sexp())
	}
	return "(" + strings.Join(parts, " ") + ")"
}

func (q *Query) Sexp() string {
	switch q.Op {
	case "table":
		return fmt.Sprintf("(table %d)", q.N)
	case "filter":
		return fmt.Sprintf("(filter %s %s)", q.P.Sexp(), q.L.Sexp())
	case "project":
		return fmt.Sprintf("(project %s %s)", exprsSexp(q.Es), q.L.Sexp())
	case "join":
		return fmt.Sprintf("(join %s %s %s %s)", q.Kind, q.P.Sexp(), q.L.Sexp(), q.R.Sexp())
	case "group":
		return fmt.Sprintf("(group %s (%s) %s %s)", exprsSexp(q.Es), strings.Join(q.Fns, " "), exprsSexp(q.Args), q.L.Sexp())
	case "distinct":
		return fmt.Sprintf("(distinct %s)", q.L.Sexp())
	case "setop":
		all := "distinct"
		if q.All {
			all = "all"
		}
		return fmt.Sprintf("(setop %s %s %s %s)", q.Kind, all, q.L.Sexp(), q.R.Sexp())
	case "orderby":
		ds := make([]string, len(q.Desc))
		for i, d := range q.Desc {
			if d {
				ds[i] = "d"
			} else {
				ds[i] = "a"
			}
		}
		return fmt.Sprintf("(orderby %s (%s) %s)", exprsSexp(q.Es), strings.Join(ds, " "), q.L.Sexp())
	case "limit":
		return fmt.Sprintf("(limit %d %d %s)", q.N, q.Off, q.L.Sexp())
	}
	panic("sqlgen: unknown query op " + q.Op)
}

// ---- constructors ---------------------------------------------------------------------------

func Lit(v Value) *Expr             { return &Expr{Op: "lit", V: v} }
func Col(d, i int) *Expr            { return &Expr{Op: "col", D: d, I: i} }
func Un(op string, a *Expr) *Expr   { return &Expr{Op: op, Args: []*Expr{a}} }
func Bin(op string, a, b *Expr) *Expr { return &Expr{Op: op, Args: []*Expr{a, b}} }
func Cmp(op string, a, b *Expr) *Expr {
	return &Expr{Op: "cmp", Sub: op, Args: []*Expr{a, b}}
}
func Arith(op string, a, b *Expr) *Expr {
	return &Expr{Op: "arith", Sub: op, Args: []*Expr{a, b}}
}
func In(e *Expr, list []*Expr) *Expr  { return &Expr{Op: "in", Args: []*Expr{e}, List: list} }
func Between(e, lo, hi *Expr) *Expr   { return &Expr{Op: "between", Args: []*Expr{e, lo, hi}} }
func Ite(c, a, b *Expr) *Expr         { return &Expr{Op: "ite", Args: []*Expr{c, a, b}} }
func Exists(q *Query) *Expr           { return &Expr{Op: "exists", Q: q} }
func InSub(e *Expr, q *Query) *Expr   { return &Expr{Op: "insub", Args: []*Expr{e}, Q: q} }
func Scalar(q *Query) *Expr           { return &Expr{Op: "scalar", Q: q} }
func Not(e *Expr) *Expr               { return Un("not", e) }

func TableQ(n int) *Query                 { return &Query{Op: "table", N: n} }
func Filter(p *Expr, q *Query) *Query     { return &Query{Op: "filter", P: p, L: q} }
func Project(es []*Expr, q *Query) *Query { return &Query{Op: "project", Es: es, L: q} }
func Join(kind string, on *Expr, l, r *Query) *Query {
	return &Query{Op: "join", Kind: kind, P: on, L: l, R: r}
}
func Group(keys []*Expr, fns []string, args []*Expr, q *Query) *Query {
	return &Query{Op: "group", Es: keys, Fns: fns, Args: args, L: q}
}
func Distinct(q *Query) *Query { return &Query{Op: "distinct", L: q} }
func SetOp(op string, all bool, l, r *Query) *Query {
	return &Query{Op: "setop", Kind: op, All: all, L: l, R: r}
}
func OrderBy(keys []*Expr, desc []bool, q *Query) *Query {
	return &Query{Op: "orderby", Es: keys, Desc: desc, L: q}
}
func Limit(n, off int, q *Query) *Query { return &Query{Op: "limit", N: n, Off: off, L: q} }

// Clone makes a deep copy (so that spelling flags can be changed on the copy).
func (e *Expr) Clone() *Expr {
	if e == nil {
		return nil
	}
	c := *e
	c.Args = cloneEs(e.Args)
	c.List = cloneEs(e.List)
	c.Q = e.Q.Clone()
	return &c
}
func cloneEs(es []*Expr) []*Expr {
	if es == nil {
		return nil
	}
	out := make([]*Expr, len(es))
	for i, e := range es {
		out[i] = e.Clone()
	}
	return out
}
func (q *Query) Clone() *Query {
	if q == nil {
		return nil
	}
	c := *q
	c.P = q.P.Clone()
	c.Es = cloneEs(q.Es)
	c.Args = cloneEs(q.Args)
	c.L = q.L.Clone()
	c.R = q.R.Clone()
	c.Fns = append([]string(nil), q.Fns...)
	c.Desc = append([]bool(nil), q.Desc...)
	return &c
}
