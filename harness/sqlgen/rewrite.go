package sqlgen

// Rewrites: the "other spelling" of the C06 pairs. They mirror orChain / andChain / betweenAnd /
// substRow of lean/Gms/Model/HashIn.lean (the Lean side proves each pair equivalent under the SQL
// definition; here they only produce the second statement to run).

// OrChain: x = a OR x = b OR …
func OrChain(x *Expr, list []*Expr) *Expr {
	if len(list) == 1 {
		return Cmp("eq", x.Clone(), list[0].Clone())
	}
	return Bin("or", Cmp("eq", x.Clone(), list[0].Clone()), OrChain(x, list[1:]))
}

// AndChain: x <> a AND x <> b AND …
func AndChain(x *Expr, list []*Expr) *Expr {
	if len(list) == 1 {
		return Cmp("ne", x.Clone(), list[0].Clone())
	}
	return Bin("and", Cmp("ne", x.Clone(), list[0].Clone()), AndChain(x, list[1:]))
}

// BetweenAnd: x >= lo AND x <= hi
func BetweenAnd(x, lo, hi *Expr) *Expr {
	return Bin("and", Cmp("ge", x.Clone(), lo.Clone()), Cmp("le", x.Clone(), hi.Clone()))
}

// SubstRow replaces the columns of the current row (depth 0) by the literal values of row
// (subquery-free expressions only).
func SubstRow(e *Expr, row []Value) *Expr {
	if e.Op == "col" && e.D == 0 {
		return Lit(row[e.I])
	}
	c := *e
	c.Args = make([]*Expr, len(e.Args))
	for i, a := range e.Args {
		c.Args[i] = SubstRow(a, row)
	}
	c.List = make([]*Expr, len(e.List))
	for i, a := range e.List {
		c.List[i] = SubstRow(a, row)
	}
	if e.List == nil {
		c.List = nil
	}
	return &c
}
