package sqlgen

import (
	"github.com/dolthub/go-mysql-server/verifharness/hx"
)

// Config is the feature envelope of the generator. Features are switched on one at a time,
// after the unchanged tree has been quiet over multi-seed sweeps.
type Config struct {
	Strings    bool // varchar columns and string expressions (binary collation only)
	Joins      bool
	RightJoin  bool
	Group      bool
	Having     bool
	Distinct   bool
	SetOps     bool
	OrderLimit bool
	Subqueries bool // EXISTS / IN / scalar subqueries in expressions
	Correlated bool // … that may reference the enclosing row
	DivMod     bool // DIV and %
	Xor        bool
	NullSafeEq bool
	CountDistinct bool
	// Indexes: KEY on some tables (should change plans, not results). Off: with a secondary index on
	// column c, `EXISTS (SELECT … FROM t s2 WHERE 1 < s1.c)` correlated to the same table is evaluated
	// as if the predicate were on s2.c (observed defect; index access paths are C01/C03's subject).
	Indexes    bool
	MaxTables  int
	MaxCols    int
	MaxRows    int
}

// Default is the envelope C02/C05/C06 run with.
func Default() Config {
	return Config{Strings: true, Joins: true, RightJoin: true, Group: true, Having: true, Distinct: true, SetOps: true,
		OrderLimit: true, Subqueries: true, Correlated: true, DivMod: false, Xor: true, NullSafeEq: true,
		CountDistinct: true, Indexes: false, MaxTables: 3, MaxCols: 3, MaxRows: 6}
}

type Gen struct {
	R   *hx.Rand
	Cfg Config
	Db  *Db
	// Stats counts the features used by the terms generated so far.
	Stats map[string]int
}

func NewGen(r *hx.Rand, cfg Config) *Gen { return &Gen{R: r, Cfg: cfg, Stats: map[string]int{}} }

func (g *Gen) use(f string) { g.Stats[f]++ }

// (The empty string is not in the pool: `EXCEPT ALL` loses one occurrence of the one-column row
// ('') — observed defect; '' is exercised by the corpus outside EXCEPT ALL.)
var strPool = []string{"a", "b", "B", "ab", "a ", "b1", "A"}

func (g *Gen) Value(ty Ty, nullable bool) Value {
	if nullable && g.R.Chance(1, 5) {
		return Null()
	}
	if ty == TStr {
		return Str(hx.Pick(g.R, strPool))
	}
	return Int(int64(g.R.Range(-2, 3)))
}

// GenDb draws a small database: 1..MaxTables tables of 1..MaxCols columns and 0..MaxRows rows,
// with NULLs and duplicates.
func (g *Gen) GenDb() *Db {
	db := &Db{}
	nt := g.R.Range(1, g.Cfg.MaxTables)
	for n := 0; n < nt; n++ {
		t := &Table{}
		nc := g.R.Range(1, g.Cfg.MaxCols)
		for j := 0; j < nc; j++ {
			ty := TInt
			if g.Cfg.Strings && g.R.Chance(1, 4) {
				ty = TStr
			}
			t.Tys = append(t.Tys, ty)
			t.NotNull = append(t.NotNull, g.R.Chance(1, 4))
		}
		nr := g.R.Range(0, g.Cfg.MaxRows)
		if g.R.Chance(1, 8) {
			nr = 0
		}
		for i := 0; i < nr; i++ {
			if i > 0 && g.R.Chance(1, 5) { // duplicate row
				t.Rows = append(t.Rows, append([]Value(nil), t.Rows[g.R.Intn(i)]...))
				continue
			}
			row := make([]Value, nc)
			for j := range row {
				row[j] = g.Value(t.Tys[j], !t.NotNull[j])
			}
			t.Rows = append(t.Rows, row)
		}
		if g.Cfg.Indexes && g.R.Chance(1, 3) {
			j := g.R.Intn(nc)
			t.Extra = ", KEY k" + itoa(j) + " (c" + itoa(j) + ")"
			g.use("db:index")
		}
		db.Tables = append(db.Tables, t)
	}
	g.Db = db
	return db
}

func itoa(i int) string {
	if i == 0 {
		return "0"
	}
	s := ""
	neg := i < 0
	if neg {
		i = -i
	}
	for i > 0 {
		s = string(rune('0'+i%10)) + s
		i /= 10
	}
	if neg {
		s = "-" + s
	}
	return s
}

// ---- expressions ----------------------------------------------------------------------------

var boolOps = map[string]bool{"cmp": true, "and": true, "or": true, "xor": true, "not": true, "isnull": true,
	"istrue": true, "isfalse": true, "in": true, "between": true, "exists": true, "insub": true}

// TypeOf refines the declared type of e (TInt or TStr) to TBool when e is (or may be) the value
// of a predicate.
func TypeOf(e *Expr, declared Ty, sc [][]Ty) Ty {
	if declared == TStr {
		return TStr
	}
	switch {
	case boolOps[e.Op]:
		return TBool
	case e.Op == "col":
		if e.D < len(sc) && e.I < len(sc[e.D]) && sc[e.D][e.I] == TBool {
			return TBool
		}
	case e.Op == "ite":
		if TypeOf(e.Args[1], declared, sc) == TBool || TypeOf(e.Args[2], declared, sc) == TBool {
			return TBool
		}
	case e.Op == "coalesce":
		if TypeOf(e.Args[0], declared, sc) == TBool || TypeOf(e.Args[1], declared, sc) == TBool {
			return TBool
		}
	case e.Op == "scalar":
		return TBool // conservatively: MIN/MAX of a predicate
	}
	return declared
}

// NullTyped: the engine gives the expression the NULL type (all value leaves are NULL literals).
func NullTyped(e *Expr) bool {
	switch e.Op {
	case "lit":
		return e.V.Null
	case "ite":
		return NullTyped(e.Args[1]) && NullTyped(e.Args[2])
	case "coalesce":
		return NullTyped(e.Args[0]) && NullTyped(e.Args[1])
	}
	return false
}

// Unbool wraps a possibly boolean-valued integer expression in `+ 0`, and replaces a bare NULL
// literal (the engine evaluates `x IN (SELECT NULL …)` to FALSE: known finding) by a typed one.
func Unbool(e *Expr, declared Ty, sc [][]Ty) *Expr {
	if NullTyped(e) {
		if declared == TStr {
			return Bin("coalesce", Lit(Null()), Ite(Lit(Int(0)), Lit(Str("a")), Lit(Null())))
		}
		return Arith("add", Lit(Null()), Lit(Int(0)))
	}
	if TypeOf(e, declared, sc) == TBool {
		return Arith("add", e, Lit(Int(0)))
	}
	return e
}

// HasCol reports whether e references a column of the current row (depth 0), outside subqueries.
func HasCol(e *Expr) bool {
	if e == nil {
		return false
	}
	if e.Op == "col" && e.D == 0 {
		return true
	}
	for _, a := range e.Args {
		if HasCol(a) {
			return true
		}
	}
	for _, a := range e.List {
		if HasCol(a) {
			return true
		}
	}
	return false
}

// NonConst makes a projected expression depend on a column of its input: the engine fails with an
// internal error ("unable to find field with index …") when a constant column of a nested derived
// table is referenced only by an outer filter (observed defect), so constant select items are kept
// out of the envelope.
func (g *Gen) NonConst(e *Expr, ty Ty, tys []Ty) *Expr {
	if HasCol(e) || len(tys) == 0 {
		return e
	}
	g.use("expr:const-made-dependent")
	return Ite(Un("isnull", Col(0, g.R.Intn(len(tys)))), e, Lit(g.Value(ty, false)))
}

// unboolQ makes every output column of q non-boolean (adds a projection `c + 0` if needed).
func (g *Gen) unboolQ(q *Query, tys []Ty) (*Query, []Ty) {
	any := false
	for _, t := range tys {
		any = any || t == TBool
	}
	if !any {
		return q, tys
	}
	es := make([]*Expr, len(tys))
	out := make([]Ty, len(tys))
	for i, t := range tys {
		es[i] = Col(0, i)
		out[i] = t
		if t == TBool {
			es[i] = Arith("add", Col(0, i), Lit(Int(0)))
			out[i] = TInt
		}
	}
	g.use("q:unbool-projection")
	return Project(es, q), out
}

// colsOf lists the columns of type ty visible at depth d.
func colsOf(sc [][]Ty, d int, ty Ty) []int {
	var out []int
	for i, t := range sc[d] {
		if t == ty || (ty == TInt && t == TBool) {
			out = append(out, i)
		}
	}
	return out
}

func (g *Gen) hasType(sc [][]Ty, ty Ty) bool {
	for d := range sc {
		if len(colsOf(sc, d, ty)) > 0 {
			return true
		}
	}
	return false
}

// colRef picks a column of type ty: mostly from the current row, sometimes from an enclosing one.
func (g *Gen) colRef(sc [][]Ty, ty Ty) *Expr {
	d := 0
	if len(sc) > 1 && g.Cfg.Correlated && g.R.Chance(2, 5) {
		d = g.R.Range(1, len(sc)-1)
	}
	for try := 0; try < len(sc); try++ {
		dd := (d + try) % len(sc)
		if cs := colsOf(sc, dd, ty); len(cs) > 0 {
			if dd > 0 {
				g.use("expr:outer-ref")
			}
			return Col(dd, hx.Pick(g.R, cs))
		}
	}
	return nil
}

func (g *Gen) leaf(ty Ty, sc [][]Ty) *Expr {
	if g.R.Chance(2, 3) {
		if c := g.colRef(sc, ty); c != nil {
			return c
		}
	}
	if g.R.Chance(1, 10) {
		return Lit(Null())
	}
	return Lit(g.Value(ty, false))
}

// Expr draws an expression of type ty over the scope stack sc (sc[0] = current row).
func (g *Gen) Expr(ty Ty, depth int, sc [][]Ty) *Expr {
	if depth <= 0 {
		return g.leaf(ty, sc)
	}
	if ty == TStr {
		switch g.R.Intn(6) {
		case 0:
			e := Ite(g.Pred(depth-1, sc), g.Expr(TStr, depth-1, sc), g.Expr(TStr, depth-1, sc))
			e.Alt = g.R.Chance(1, 4)
			g.use("expr:case")
			return e
		case 1:
			e := Bin("coalesce", g.Expr(TStr, depth-1, sc), g.Expr(TStr, depth-1, sc))
			e.Alt = g.R.Chance(1, 4)
			g.use("expr:coalesce")
			return e
		case 2:
			if g.Cfg.Subqueries && depth >= 2 {
				if q := g.scalarSub(TStr, depth-1, sc); q != nil {
					return Scalar(q)
				}
			}
		}
		return g.leaf(TStr, sc)
	}
	switch g.R.Intn(10) {
	case 0, 1:
		return g.leaf(TInt, sc)
	case 2, 3:
		ops := []string{"add", "sub", "mul"}
		if g.Cfg.DivMod {
			ops = append(ops, "idiv", "mod")
		}
		g.use("expr:arith")
		return Arith(hx.Pick(g.R, ops), g.Expr(TInt, depth-1, sc), g.Expr(TInt, depth-1, sc))
	case 4:
		g.use("expr:neg")
		return Un("neg", Unbool(g.Expr(TInt, depth-1, sc), TInt, sc)) // (unary minus of a boolean: "invalid type" error, observed defect)
	case 5:
		e := Ite(g.Pred(depth-1, sc), g.Expr(TInt, depth-1, sc), g.Expr(TInt, depth-1, sc))
		e.Alt = g.R.Chance(1, 4)
		g.use("expr:case")
		return e
	case 6:
		e := Bin("coalesce", g.Expr(TInt, depth-1, sc), g.Expr(TInt, depth-1, sc))
		e.Alt = g.R.Chance(1, 4)
		g.use("expr:coalesce")
		return e
	case 7:
		if g.Cfg.Subqueries && depth >= 2 {
			if q := g.scalarSub(TInt, depth-1, sc); q != nil {
				return Scalar(q)
			}
		}
		return g.leaf(TInt, sc)
	}
	return g.Pred(depth, sc)
}

func (g *Gen) operandType(sc [][]Ty) Ty {
	if g.Cfg.Strings && g.hasType(sc, TStr) && g.R.Chance(1, 3) {
		return TStr
	}
	return TInt
}

// Pred draws an integer-typed expression that is a predicate (value 1, 0 or NULL).
func (g *Gen) Pred(depth int, sc [][]Ty) *Expr {
	if depth <= 0 {
		ty := g.operandType(sc)
		ops := []string{"eq", "ne", "lt", "le", "gt", "ge"}
		g.use("pred:cmp")
		return Cmp(hx.Pick(g.R, ops), g.leaf(ty, sc), g.leaf(ty, sc))
	}
	switch g.R.Intn(16) {
	case 0, 1, 2:
		ty := g.operandType(sc)
		ops := []string{"eq", "ne", "lt", "le", "gt", "ge"}
		if g.Cfg.NullSafeEq {
			ops = append(ops, "nseq")
		}
		g.use("pred:cmp")
		return Cmp(hx.Pick(g.R, ops), g.Expr(ty, depth-1, sc), g.Expr(ty, depth-1, sc))
	case 3:
		g.use("pred:and")
		return Bin("and", g.Pred(depth-1, sc), g.Pred(depth-1, sc))
	case 4:
		g.use("pred:or")
		return Bin("or", g.Pred(depth-1, sc), g.Pred(depth-1, sc))
	case 5:
		g.use("pred:not")
		return Not(g.Pred(depth-1, sc))
	case 6:
		e := Un("isnull", g.Expr(g.operandType(sc), depth-1, sc))
		g.use("pred:isnull")
		if g.R.Bool() {
			n := Not(e)
			n.Alt = g.R.Bool()
			return n
		}
		return e
	case 7:
		e := Un(hx.Pick(g.R, []string{"istrue", "isfalse"}), g.Pred(depth-1, sc))
		g.use("pred:istruth")
		if g.R.Chance(1, 3) {
			n := Not(e)
			n.Alt = g.R.Bool()
			return n
		}
		return e
	case 8, 9:
		ty := g.operandType(sc)
		n := g.R.Range(1, 3)
		list := make([]*Expr, n)
		for i := range list {
			list[i] = g.Expr(ty, depth-1, sc)
			if g.R.Chance(1, 8) {
				list[i] = Lit(Null())
			}
		}
		e := In(g.Expr(ty, depth-1, sc), list)
		g.use("pred:in-list")
		if g.R.Chance(1, 3) {
			nn := Not(e)
			nn.Alt = g.R.Chance(2, 3)
			return nn
		}
		return e
	case 10:
		ty := g.operandType(sc)
		e := Between(g.Expr(ty, depth-1, sc), g.Expr(ty, depth-1, sc), g.Expr(ty, depth-1, sc))
		g.use("pred:between")
		if g.R.Chance(1, 3) {
			nn := Not(e)
			nn.Alt = g.R.Chance(2, 3)
			return nn
		}
		return e
	case 11:
		if g.Cfg.Xor {
			g.use("pred:xor")
			return Bin("xor", g.Pred(depth-1, sc), g.Pred(depth-1, sc))
		}
	case 12:
		// an arbitrary integer used as a truth value
		g.use("pred:int-as-bool")
		return g.Expr(TInt, depth-1, sc)
	case 13, 14, 15:
		if g.Cfg.Subqueries && depth >= 2 {
			switch g.R.Intn(2) {
			case 0:
				q, _ := g.subBlock(depth-1, sc)
				e := Exists(q)
				g.use("pred:exists")
				if g.R.Chance(1, 3) {
					nn := Not(e)
					nn.Alt = g.R.Chance(2, 3)
					g.use("pred:not-exists")
					return nn
				}
				return e
			case 1:
				ty := g.operandType(sc)
				q := g.oneColSub(ty, depth-1, sc)
				if q == nil {
					break
				}
				e := InSub(g.Expr(ty, depth-2, sc), q)
				g.use("pred:in-subquery")
				if g.R.Chance(1, 3) {
					nn := Not(e)
					nn.Alt = g.R.Chance(2, 3)
					g.use("pred:not-in-subquery")
					return nn
				}
				return e
			}
		}
	}
	return g.Pred(depth-1, sc)
}

// JoinOn draws a join condition that depends on the joined rows (a constant-false ON of a LEFT JOIN
// inside EXISTS is mis-evaluated — observed defect, known finding exists_left_join_const_false).
func (g *Gen) JoinOn(depth int, all []Ty) *Expr {
	// (every conjunct must depend on the rows as well: with a grouped derived table on the left, a
	// constant non-TRUE conjunct of ON — `x.c <> -2 AND NOT (-1 <= NULL)` — is dropped when the other
	// conjunct is pushed down, and the join degenerates to a cross join: observed defect)
	for i := 0; i < 6; i++ {
		if on := g.Pred(depth, [][]Ty{all}); conjunctsHaveCols(on) {
			return on
		}
	}
	i := g.R.Intn(len(all))
	return Not(Un("isnull", Col(0, i)))
}

func conjunctsHaveCols(e *Expr) bool {
	if e.Op == "and" {
		return conjunctsHaveCols(e.Args[0]) && conjunctsHaveCols(e.Args[1])
	}
	return HasCol(e)
}

// aggArg keeps NULL-typed arguments out of aggregates (MAX(NULL) is a NULL-typed column: the
// IN-subquery defect of known finding in_subquery_null_literal).
func (g *Gen) aggArg(arg *Expr, ty Ty, tys []Ty) *Expr {
	if NullTyped(arg) {
		arg = Lit(g.Value(ty, false))
	}
	return g.NonConst(arg, ty, tys) // (MIN(0): constant column of a derived table, see nonConst)
}

// ---- subqueries inside expressions -------------------------------------------------------------

// subBlock draws FROM (a table or a join of two tables) + optional WHERE, all of which the printer
// merges into ONE select block, so that references to enclosing rows (which may occur in the WHERE
// predicate only) never end up inside a derived table.
func (g *Gen) subBlock(depth int, outer [][]Ty) (*Query, []Ty) {
	n := g.R.Intn(len(g.Db.Tables))
	q := TableQ(n)
	tys := append([]Ty(nil), g.Db.Tables[n].Tys...)
	if g.Cfg.Joins && g.R.Chance(1, 4) {
		m := g.R.Intn(len(g.Db.Tables))
		tys2 := g.Db.Tables[m].Tys
		all := append(append([]Ty(nil), tys...), tys2...)
		kind := "inner"
		if g.R.Chance(1, 3) {
			kind = "left"
		}
		q = Join(kind, g.JoinOn(0, all), q, TableQ(m))
		tys = all
		g.use("sub:join")
	}
	if g.R.Chance(4, 5) {
		sc := append([][]Ty{tys}, outer...)
		// the WHERE of a subquery must mention the subquery's own row: a filter on enclosing rows only
		// makes the engine fail with "hoistOutOfScopeFilters tried to hoist filters above root node"
		// (observed defect)
		// (the same holds for every top-level conjunct)
		p := g.Pred(depth, sc)
		for i := 0; i < 4 && !conjunctsHaveCols(p); i++ {
			p = g.Pred(depth, sc)
		}
		if !conjunctsHaveCols(p) {
			p = Cmp("eq", Col(0, g.R.Intn(len(tys))), Col(0, g.R.Intn(len(tys))))
			if tys[p.Args[0].I] != tys[p.Args[1].I] && (tys[p.Args[0].I] == TStr || tys[p.Args[1].I] == TStr) {
				p = Not(Un("isnull", Col(0, p.Args[0].I)))
			}
		}
		q = Filter(p, q)
	}
	return q, tys
}

func (g *Gen) oneColSub(ty Ty, depth int, outer [][]Ty) *Query {
	if g.R.Chance(1, 4) { // uncorrelated, arbitrary shape
		// (no set operation below an IN-subquery: "the schema of the left side of union does not match
		// the right side, expected tinyint(1) to match bigint" — observed defect)
		saved := g.Cfg.SetOps
		g.Cfg.SetOps = false
		q, tys := g.Query(depth)
		g.Cfg.SetOps = saved
		g.use("sub:general")
		sc := [][]Ty{tys}
		return Project([]*Expr{Unbool(g.NonConst(g.Expr(ty, 1, sc), ty, tys), ty, sc)}, q)
	}
	q, tys := g.subBlock(depth, outer)
	// (the selected expression must depend on the subquery's own row: `x IN (SELECT <outer-only
	// expression> FROM t WHERE <correlated>)` returns wrong results — observed defect)
	// … and must not mention the enclosing rows at all (same defect with `IF(inner, outer, outer)`).
	in := [][]Ty{tys}
	return Project([]*Expr{Unbool(g.NonConst(g.Expr(ty, g.R.Intn(2), in), ty, tys), ty, in)}, q)
}

// scalarSub draws a single-row, single-column subquery: an aggregate without GROUP BY.
func (g *Gen) scalarSub(ty Ty, depth int, outer [][]Ty) *Query {
	q, tys := g.subBlock(depth, outer)
	sc := append([][]Ty{tys}, outer...)
	var fn string
	var arg *Expr
	if ty == TStr {
		fn = hx.Pick(g.R, []string{"min", "max"})
		arg = g.aggArg(g.Expr(TStr, g.R.Intn(2), [][]Ty{tys}), TStr, tys)
	} else {
		fn = hx.Pick(g.R, []string{"countstar", "count", "sum", "min", "max"})
		at := TInt
		if fn == "count" && g.Cfg.Strings && g.R.Chance(1, 3) {
			at = TStr
		}
		arg = g.aggArg(g.Expr(at, g.R.Intn(2), [][]Ty{tys}), at, tys)
	}
	_ = sc
	g.use("sub:scalar-" + fn)
	return Group(nil, []string{fn}, []*Expr{arg}, q)
}

// ---- queries -----------------------------------------------------------------------------------

// Query draws a closed query of the given maximal depth and returns its output column types.
func (g *Gen) Query(depth int) (*Query, []Ty) {
	if depth <= 0 {
		n := g.R.Intn(len(g.Db.Tables))
		return TableQ(n), append([]Ty(nil), g.Db.Tables[n].Tys...)
	}
	for {
		switch g.R.Intn(12) {
		case 0:
			return g.Query(0)
		case 1, 2, 3:
			q, tys := g.Query(depth - 1)
			g.use("q:filter")
			f := Filter(g.Pred(g.R.Range(0, 3), [][]Ty{tys}), q)
			f.Barrier = g.R.Chance(1, 6)
			return f, tys
		case 4, 5:
			q, tys := g.Query(depth - 1)
			n := g.R.Range(1, 3)
			es := make([]*Expr, n)
			out := make([]Ty, n)
			subq := false
			for i := range es {
				out[i] = TInt
				if g.Cfg.Strings && g.hasType([][]Ty{tys}, TStr) && g.R.Chance(1, 3) {
					out[i] = TStr
				}
				es[i] = g.NonConst(g.Expr(out[i], g.R.Range(0, 3), [][]Ty{tys}), out[i], tys)
				// at most one select item with a subquery (several conditionally evaluated subqueries in
				// one select list returned wrong values in a thorough sweep — observed, not minimised)
				if HasSubquery(es[i]) {
					if subq {
						es[i] = g.NonConst(g.Expr(out[i], 1, [][]Ty{tys}), out[i], tys)
					}
					subq = true
				}
				out[i] = TypeOf(es[i], out[i], [][]Ty{tys})
			}
			g.use("q:project")
			pq := Project(es, q)
			pq.Barrier = g.R.Chance(1, 6)
			return pq, out
		case 6, 7:
			if !g.Cfg.Joins {
				continue
			}
			l, lt := g.Query(depth - 1)
			r, rt := g.Query(g.R.Intn(depth))
			all := append(append([]Ty(nil), lt...), rt...)
			if len(all) > 6 {
				continue
			}
			kinds := []string{"inner", "inner", "left", "left"}
			if g.Cfg.RightJoin {
				kinds = append(kinds, "right")
			}
			kind := hx.Pick(g.R, kinds)
			var on *Expr
			if kind == "inner" && g.R.Chance(1, 5) {
				on = Lit(Int(1))
			} else {
				on = g.JoinOn(g.R.Range(0, 2), all)
			}
			g.use("q:join-" + kind)
			j := Join(kind, on, l, r)
			j.Cross = g.R.Bool()
			j.Barrier = g.R.Chance(1, 8)
			return j, all
		case 8:
			if !g.Cfg.Group {
				continue
			}
			q, tys := g.Query(depth - 1)
			q, tys = g.unboolQ(q, tys)
			nk := g.R.Intn(3)
			if nk > len(tys) {
				nk = len(tys)
			}
			var keys []*Expr
			var out []Ty
			perm := g.perm(len(tys))
			for i := 0; i < nk; i++ {
				keys = append(keys, Col(0, perm[i]))
				out = append(out, tys[perm[i]])
			}
			na := g.R.Range(0, 2)
			if nk == 0 && na == 0 {
				na = 1
			}
			var fns []string
			var args []*Expr
			for i := 0; i < na; i++ {
				fnPool := []string{"countstar", "count", "sum", "min", "max"}
				if g.Cfg.CountDistinct {
					fnPool = append(fnPool, "countdistinct")
				}
				fn := hx.Pick(g.R, fnPool)
				at := TInt
				if fn != "sum" && g.Cfg.Strings && g.hasType([][]Ty{tys}, TStr) && g.R.Chance(1, 3) {
					at = TStr
				}
				arg := g.aggArg(g.Expr(at, g.R.Intn(2), [][]Ty{tys}), at, tys)
				if fn == "countdistinct" {
					arg = Unbool(arg, at, [][]Ty{tys})
				}
				if fn == "countstar" {
					arg = Lit(Int(1))
				}
				fns = append(fns, fn)
				args = append(args, arg)
				if fn == "min" || fn == "max" {
					out = append(out, TypeOf(arg, at, [][]Ty{tys}))
				} else {
					out = append(out, TInt)
				}
				g.use("agg:" + fn)
			}
			g.use("q:group")
			var res *Query = Group(keys, fns, args, q)
			res.Barrier = g.R.Chance(1, 6)
			if g.Cfg.Having && g.R.Chance(1, 3) {
				res = Filter(g.Pred(g.R.Intn(2), [][]Ty{out}), res)
				g.use("q:having")
			}
			return res, out
		case 9:
			if !g.Cfg.Distinct {
				continue
			}
			q, tys := g.Query(depth - 1)
			q, tys = g.unboolQ(q, tys)
			g.use("q:distinct")
			return Distinct(q), tys
		case 10:
			if !g.Cfg.SetOps {
				continue
			}
			l, lt := g.Query(depth - 1)
			l, lt = g.unboolQ(l, lt)
			r := g.QueryOfTypes(lt, g.R.Intn(depth))
			op := hx.Pick(g.R, []string{"union", "union", "intersect", "except"})
			all := g.R.Bool()
			g.use("q:" + op)
			return SetOp(op, all, l, r), lt
		case 11:
			if !g.Cfg.OrderLimit {
				continue
			}
			q, tys := g.Query(depth - 1)
			g.use("q:order-limit")
			return g.OrderLimit(q, tys, true), tys
		}
	}
}

// QueryOfTypes draws a query whose output has exactly the given column types.
func (g *Gen) QueryOfTypes(tys []Ty, depth int) *Query {
	q, qt := g.Query(depth)
	if len(qt) == len(tys) {
		same := true
		for i := range tys {
			same = same && qt[i] == tys[i]
		}
		if same {
			return q
		}
	}
	es := make([]*Expr, len(tys))
	for i, t := range tys {
		es[i] = Unbool(g.NonConst(g.Expr(t, g.R.Intn(2), [][]Ty{qt}), t, qt), t, [][]Ty{qt})
	}
	return Project(es, q)
}

func (g *Gen) perm(n int) []int {
	p := make([]int, n)
	for i := range p {
		p[i] = i
	}
	for i := n - 1; i > 0; i-- {
		j := g.R.Intn(i + 1)
		p[i], p[j] = p[j], p[i]
	}
	return p
}

// OrderLimit sorts q by ALL its columns (random column order and directions: the order is total
// up to identical rows, so the result sequence is determined) and optionally cuts a slice.
func (g *Gen) OrderLimit(q *Query, tys []Ty, withLimit bool) *Query {
	perm := g.perm(len(tys))
	keys := make([]*Expr, len(perm))
	desc := make([]bool, len(perm))
	for i, c := range perm {
		keys[i] = Col(0, c)
		desc[i] = g.R.Chance(1, 3)
	}
	o := OrderBy(keys, desc, q)
	if !withLimit {
		return o
	}
	return Limit(g.R.Range(0, 4), g.R.Intn(3), o)
}
