package sqlgen

import (
	"fmt"
	"strings"
)

// Printer turns a query term into SQL text. Consecutive nodes are merged into one SELECT block
// in the canonical clause order (FROM/JOIN, WHERE, GROUP BY, HAVING, select list, DISTINCT,
// ORDER BY, LIMIT); wherever the next node does not fit (or a node has Barrier set, or NoFuse is
// set) the block so far becomes a derived table `( … ) AS s<k>` — or a CTE when CTE is set.
// Every block has an explicit select list `… AS c0, … AS c1`, every source an alias s<k>, and
// every column reference is qualified, so names never clash.
type Printer struct {
	Db *Db
	// NoFuse: never merge (every node above a table is its own derived table).
	NoFuse bool
	// CTE: spell derived tables of the outermost statement as common table expressions.
	CTE bool
	// FuseGroupProject: allow `SELECT f(key), g(agg) … GROUP BY key` (project merged into group).
	FuseGroupProject bool

	// AllowSetopOffset: print `a UNION b ORDER BY … LIMIT n OFFSET m` (m > 0) as one statement. The
	// engine applies such an OFFSET before the sort (known finding setop_offset_before_sort), so the
	// generators leave this off and the set operation is wrapped in a derived table instead.
	AllowSetopOffset bool
	// AllowDistinctOrdinal: print `SELECT DISTINCT … ORDER BY <ordinal>` in one block (the engine
	// mis-orders it; left off by the generators).
	AllowDistinctOrdinal bool
	AllowHavingOverJoin bool
	AllowMixedJoinChains bool
	// Feats records spelling features of the last statement that known-finding regions depend on.
	Feats map[string]bool

	n     int
	ctes  []string
	depth int // > 0 while printing a subquery inside an expression
}

const (
	stFrom = iota
	stWhere
	stGroup
	stHaving
	stSelect
	stDistinct
	stOrder
	stLimit
)

type block struct {
	raw      string // set operation: complete text up to (excluding) ORDER BY / LIMIT
	from     string
	isJoin   bool
	hasOuter bool // the FROM clause contains a LEFT/RIGHT join
	cols     []string // SQL text of each column of the row at the current stage
	where    string
	groupBy  []string
	grouped  bool
	having   string
	sel      []string
	distinct bool
	order    string
	limit    string
	stage    int
}

// noFuse: barriers apply to the outermost statement only; inside an expression subquery everything
// is merged, so that references to enclosing rows never end up inside a derived table.
func (p *Printer) noFuse(q *Query) bool { return (p.NoFuse || q.Barrier) && p.depth == 0 }

func (p *Printer) fresh() string {
	p.n++
	return fmt.Sprintf("s%d", p.n)
}

// SQL renders a complete statement for q.
func (p *Printer) SQL(q *Query) string {
	p.n, p.ctes, p.depth = 0, nil, 0
	p.Feats = map[string]bool{}
	body := p.render(p.build(q, nil))
	if len(p.ctes) > 0 {
		return "WITH " + strings.Join(p.ctes, ", ") + " " + body
	}
	return body
}

func (p *Printer) render(b *block) string {
	var s strings.Builder
	if b.raw != "" {
		s.WriteString(b.raw)
	} else {
		list := b.sel
		if list == nil {
			list = b.cols
		}
		items := make([]string, len(list))
		for i, x := range list {
			items[i] = fmt.Sprintf("%s AS c%d", x, i)
		}
		s.WriteString("SELECT ")
		if b.distinct {
			s.WriteString("DISTINCT ")
		}
		s.WriteString(strings.Join(items, ", "))
		s.WriteString(" FROM " + b.from)
		if b.where != "" {
			s.WriteString(" WHERE " + b.where)
		}
		if len(b.groupBy) > 0 {
			s.WriteString(" GROUP BY " + strings.Join(b.groupBy, ", "))
		}
		if b.having != "" {
			s.WriteString(" HAVING " + b.having)
		}
	}
	if b.order != "" {
		s.WriteString(" ORDER BY " + b.order)
	}
	if b.limit != "" {
		s.WriteString(" " + b.limit)
	}
	return s.String()
}

func (b *block) width() int {
	if b.sel != nil {
		return len(b.sel)
	}
	return len(b.cols)
}

func (p *Printer) derive(b *block) *block {
	alias := p.fresh()
	w := b.width()
	nb := &block{stage: stFrom}
	if p.CTE && p.depth == 0 {
		p.ctes = append(p.ctes, alias+" AS ("+p.render(b)+")")
		nb.from = alias
	} else {
		nb.from = "(" + p.render(b) + ") AS " + alias
	}
	for i := 0; i < w; i++ {
		nb.cols = append(nb.cols, fmt.Sprintf("%s.c%d", alias, i))
	}
	return nb
}

// HasSubquery reports whether e contains EXISTS / IN-subquery / scalar subquery.
func HasSubquery(e *Expr) bool {
	if e == nil {
		return false
	}
	if e.Q != nil {
		return true
	}
	for _, a := range e.Args {
		if HasSubquery(a) {
			return true
		}
	}
	for _, a := range e.List {
		if HasSubquery(a) {
			return true
		}
	}
	return false
}

func allPlainCols(es []*Expr) bool {
	for _, e := range es {
		if e.Op != "col" || e.D != 0 {
			return false
		}
	}
	return true
}

func (p *Printer) build(q *Query, outer [][]string) *block {
	scope := func(b *block) [][]string { return append([][]string{b.cols}, outer...) }
	switch q.Op {
	case "table":
		alias := p.fresh()
		b := &block{stage: stFrom, from: fmt.Sprintf("t%d AS %s", q.N, alias)}
		for j := range p.Db.Tables[q.N].Tys {
			b.cols = append(b.cols, fmt.Sprintf("%s.c%d", alias, j))
		}
		return b
	case "filter":
		b := p.build(q.L, outer)
		// (HAVING over a grouped JOIN is not merged: the engine fails to resolve qualified names of
		// the joined tables inside HAVING aggregates — "table not found", observed defect.)
		if p.noFuse(q) || b.raw != "" || !(b.stage == stFrom || b.stage == stGroup) || (b.stage == stGroup && b.isJoin && !p.AllowHavingOverJoin) ||
			(b.stage == stGroup && HasSubquery(q.P)) {
			b = p.derive(b)
		}
		pred := p.expr(q.P, scope(b))
		if b.stage == stGroup {
			b.having, b.stage = pred, stHaving
		} else {
			b.where, b.stage = pred, stWhere
		}
		return b
	case "project":
		b := p.build(q.L, outer)
		if p.noFuse(q) || b.raw != "" || b.stage > stHaving || (b.stage >= stGroup && !p.FuseGroupProject) {
			b = p.derive(b)
		}
		b.sel = p.exprs(q.Es, scope(b))
		b.stage = stSelect
		return b
	case "join":
		l := p.build(q.L, outer)
		r := p.build(q.R, outer)
		// (chains mixing outer and inner joins are not merged into one FROM clause: the engine's join
		// planner loses NULL-rejecting conditions on 3-way LEFT/INNER chains — observed defect, C01's
		// subject; each outer join of a chain becomes a derived table)
		outer := q.Kind != "inner"
		if p.noFuse(q) || l.raw != "" || l.stage != stFrom || (l.isJoin && (l.hasOuter || outer) && !p.AllowMixedJoinChains) {
			l = p.derive(l)
		}
		if p.noFuse(q) || r.raw != "" || r.stage != stFrom || r.isJoin {
			r = p.derive(r)
		}
		b := &block{stage: stFrom, isJoin: true, hasOuter: outer || l.hasOuter}
		b.cols = append(append([]string{}, l.cols...), r.cols...)
		kind := map[string]string{"inner": "INNER JOIN", "left": "LEFT JOIN", "right": "RIGHT JOIN"}[q.Kind]
		if q.Cross && q.Kind == "inner" && q.P.Op == "lit" && !q.P.V.Null && !q.P.V.IsStr && q.P.V.I == 1 {
			b.from = l.from + " CROSS JOIN " + r.from
		} else {
			b.from = l.from + " " + kind + " " + r.from + " ON " + p.expr(q.P, scope(b))
		}
		return b
	case "group":
		b := p.build(q.L, outer)
		if p.noFuse(q) || b.raw != "" || b.stage > stWhere {
			b = p.derive(b)
		}
		sc := scope(b)
		keys := p.exprs(q.Es, sc)
		cols := append([]string{}, keys...)
		for i, fn := range q.Fns {
			arg := p.expr(q.Args[i], sc)
			switch fn {
			case "countstar":
				cols = append(cols, "COUNT(*)")
			case "count":
				cols = append(cols, "COUNT("+arg+")")
			case "countdistinct":
				cols = append(cols, "COUNT(DISTINCT "+arg+")")
			case "sum":
				cols = append(cols, "SUM("+arg+")")
			case "min":
				cols = append(cols, "MIN("+arg+")")
			case "max":
				cols = append(cols, "MAX("+arg+")")
			default:
				panic("sqlgen: unknown aggregate " + fn)
			}
		}
		b.groupBy, b.cols, b.grouped, b.stage = keys, cols, true, stGroup
		return b
	case "distinct":
		b := p.build(q.L, outer)
		if p.noFuse(q) || b.raw != "" || b.stage > stSelect {
			b = p.derive(b)
		}
		b.distinct, b.stage = true, stDistinct
		return b
	case "orderby":
		b := p.build(q.L, outer)
		if p.noFuse(q) || b.stage > stDistinct || (b.distinct && !p.AllowDistinctOrdinal) {
			b = p.derive(b)
		}
		byOutput := b.sel != nil || b.distinct || b.raw != "" || b.grouped
		if byOutput && !allPlainCols(q.Es) {
			b = p.derive(b)
			byOutput = false
		}
		keys := make([]string, len(q.Es))
		for i, k := range q.Es {
			if byOutput {
				keys[i] = fmt.Sprintf("%d", k.I+1)
			} else {
				keys[i] = p.expr(k, scope(b))
			}
			if q.Desc[i] {
				keys[i] += " DESC"
			}
		}
		b.order, b.stage = strings.Join(keys, ", "), stOrder
		return b
	case "limit":
		b := p.build(q.L, outer)
		if p.noFuse(q) || b.stage > stOrder || (b.raw != "" && q.Off > 0 && !p.AllowSetopOffset) {
			b = p.derive(b)
		}
		if b.raw != "" && q.Off > 0 {
			p.Feats["setop_offset"] = true
		}
		b.limit, b.stage = fmt.Sprintf("LIMIT %d OFFSET %d", q.N, q.Off), stLimit
		return b
	case "setop":
		operand := func(c *Query) (string, int) {
			b := p.build(c, outer)
			if b.raw != "" || b.order != "" || b.limit != "" {
				b = p.derive(b)
			}
			return p.render(b), b.width()
		}
		l, w := operand(q.L)
		r, _ := operand(q.R)
		op := strings.ToUpper(q.Kind)
		if q.All {
			op += " ALL"
		}
		b := &block{stage: stDistinct, raw: l + " " + op + " " + r}
		for i := 0; i < w; i++ {
			b.cols = append(b.cols, fmt.Sprintf("c%d", i))
		}
		return b
	}
	panic("sqlgen: unknown query op " + q.Op)
}

func (p *Printer) exprs(es []*Expr, sc [][]string) []string {
	out := make([]string, len(es))
	for i, e := range es {
		out[i] = p.expr(e, sc)
	}
	return out
}

func (p *Printer) subquery(q *Query, sc [][]string) string {
	p.depth++
	defer func() { p.depth-- }()
	return p.render(p.build(q, sc))
}

var cmpSQL = map[string]string{"eq": "=", "ne": "<>", "lt": "<", "le": "<=", "gt": ">", "ge": ">=", "nseq": "<=>"}
var arithSQL = map[string]string{"add": "+", "sub": "-", "mul": "*", "idiv": "DIV", "mod": "%"}

func (p *Printer) expr(e *Expr, sc [][]string) string {
	a := func(i int) string { return p.expr(e.Args[i], sc) }
	switch e.Op {
	case "lit":
		return e.V.SQL()
	case "col":
		if e.D >= len(sc) || e.I >= len(sc[e.D]) {
			panic(fmt.Sprintf("sqlgen: column (%d,%d) out of scope", e.D, e.I))
		}
		return sc[e.D][e.I]
	case "neg":
		return "(-" + a(0) + ")"
	case "arith":
		return "(" + a(0) + " " + arithSQL[e.Sub] + " " + a(1) + ")"
	case "cmp":
		return "(" + a(0) + " " + cmpSQL[e.Sub] + " " + a(1) + ")"
	case "and":
		return "(" + a(0) + " AND " + a(1) + ")"
	case "or":
		return "(" + a(0) + " OR " + a(1) + ")"
	case "xor":
		return "(" + a(0) + " XOR " + a(1) + ")"
	case "not":
		if e.Alt {
			c := e.Args[0]
			switch c.Op {
			case "isnull":
				return "(" + p.expr(c.Args[0], sc) + " IS NOT NULL)"
			case "in":
				return "(" + p.expr(c.Args[0], sc) + " NOT IN (" + strings.Join(p.exprs(c.List, sc), ", ") + "))"
			case "insub":
				return "(" + p.expr(c.Args[0], sc) + " NOT IN (" + p.subquery(c.Q, sc) + "))"
			case "between":
				return "(" + p.expr(c.Args[0], sc) + " NOT BETWEEN " + p.expr(c.Args[1], sc) + " AND " + p.expr(c.Args[2], sc) + ")"
			case "exists":
				return "(NOT EXISTS (" + p.subquery(c.Q, sc) + "))"
			case "istrue":
				return "(" + p.expr(c.Args[0], sc) + " IS NOT TRUE)"
			case "isfalse":
				return "(" + p.expr(c.Args[0], sc) + " IS NOT FALSE)"
			}
		}
		return "(NOT " + a(0) + ")"
	case "isnull":
		return "(" + a(0) + " IS NULL)"
	case "istrue":
		return "(" + a(0) + " IS TRUE)"
	case "isfalse":
		return "(" + a(0) + " IS FALSE)"
	case "in":
		return "(" + a(0) + " IN (" + strings.Join(p.exprs(e.List, sc), ", ") + "))"
	case "between":
		return "(" + a(0) + " BETWEEN " + a(1) + " AND " + a(2) + ")"
	case "ite":
		if e.Alt {
			return "IF(" + a(0) + ", " + a(1) + ", " + a(2) + ")"
		}
		// flatten nested else-branches into one multi-branch CASE
		var s strings.Builder
		s.WriteString("CASE")
		cur := e
		for {
			s.WriteString(" WHEN " + p.expr(cur.Args[0], sc) + " THEN " + p.expr(cur.Args[1], sc))
			nx := cur.Args[2]
			if nx.Op == "ite" && !nx.Alt {
				cur = nx
				continue
			}
			if !(nx.Op == "lit" && nx.V.Null) {
				s.WriteString(" ELSE " + p.expr(nx, sc))
			}
			break
		}
		s.WriteString(" END")
		return s.String()
	case "coalesce":
		if e.Alt {
			return "IFNULL(" + a(0) + ", " + a(1) + ")"
		}
		parts := []string{a(0)}
		cur := e.Args[1]
		for cur.Op == "coalesce" && !cur.Alt {
			parts = append(parts, p.expr(cur.Args[0], sc))
			cur = cur.Args[1]
		}
		parts = append(parts, p.expr(cur, sc))
		return "COALESCE(" + strings.Join(parts, ", ") + ")"
	case "exists":
		return "(EXISTS (" + p.subquery(e.Q, sc) + "))"
	case "insub":
		return "(" + a(0) + " IN (" + p.subquery(e.Q, sc) + "))"
	case "scalar":
		return "(" + p.subquery(e.Q, sc) + ")"
	}
	panic("sqlgen: unknown expression op " + e.Op)
}
