#!/bin/bash
# usage: mk_overlay.sh <worktree>  — writes <worktree>/../overlay-$(basename worktree).json so that the whole repo builds:
#   go build -overlay <that json> ./...      (sql/types/spatial_reference_systems.go is an empty file at this commit)
wt=$(cd "$1" && pwd)
out="$(dirname "$wt")/overlay-$(basename "$wt").json"
printf '{"Replace": {"%s/sql/types/spatial_reference_systems.go": "/tmp/seedkit/srs_stub.go"}}\n' "$wt" > "$out"
echo "$out"
