// Stub standing in for /repo/sql/types/spatial_reference_systems.go, which is an emptied
// (0-byte) file at the pinned commit. Used only through `go build -overlay`; /repo is not edited.
package types

type SpatialRef struct {
	Name          string
	ID            uint32
	Organization  any
	OrgCoordsysId any
	Definition    string
	Description   any
}

var SupportedSRIDs = map[uint32]SpatialRef{
	0:    {Name: "", ID: 0, Organization: nil, OrgCoordsysId: nil, Definition: "", Description: nil},
	4326: {Name: "WGS 84", ID: 4326, Organization: "EPSG", OrgCoordsysId: uint32(4326), Definition: "GEOGCS[\"WGS 84\"]", Description: nil},
	3857: {Name: "WGS 84 / Pseudo-Mercator", ID: 3857, Organization: "EPSG", OrgCoordsysId: uint32(3857), Definition: "PROJCS[\"WGS 84 / Pseudo-Mercator\"]", Description: nil},
}
