#!/bin/bash
# usage: pinned_tests.sh <worktree>   — runs the repository's pinned test suite (the 162 tests that compile at this commit)
cd "$1" || exit 2
export GOFLAGS=-mod=mod GOPROXY=off
go test -vet=off -count=1 -timeout 25m ./errguard/... ./internal/... ./optgen/cmd/support/... ./sql/in_mem_table/... ./sql/planbuilder/dateparse/... ./sql/sqlredact/... ./enginetest/scriptgen/setup/... 2>&1 | tail -15
