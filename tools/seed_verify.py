#!/usr/bin/env python3
"""
seed_verify.py <pid> <k> [--src /tmp/seed-out-<pid>/<k>] [--props C01,C02] [--thorough]

Confirms an independently written breaking change (patch.diff + demo/) in a scratch worktree and runs
our checks against it:
  1. clean worktree: demo must PASS (exit 0)
  2. patch applied: whole repo builds (overlay), pinned tests pass, demo must FAIL (exit != 0)
  3. VERIF_REPO=<worktree> tools/check.py <prop> for each property (quick, then thorough if missed)
  4. stores /verif/seeded/<pid>-<k>/ {patch.diff, demo/, README.md, meta.json}
The worktree and its build output are removed afterwards.
"""
import sys, os, subprocess, json, shutil, re, time

VERIF = os.path.dirname(os.path.dirname(os.path.abspath(__file__)))
ENV = dict(os.environ, GOFLAGS="-mod=mod", GOPROXY="off")


def sh(cmd, cwd=None, env=None, timeout=3600):
    p = subprocess.run(cmd, cwd=cwd, env=env or ENV, stdout=subprocess.PIPE, stderr=subprocess.STDOUT, timeout=timeout, shell=isinstance(cmd, str))
    return p.returncode, p.stdout.decode("utf-8", "replace")


def main():
    pid, k = sys.argv[1], sys.argv[2]
    src = f"/tmp/seed-out-{pid}/{k}"
    props = [pid]
    thorough = False
    a = sys.argv[3:]
    i = 0
    while i < len(a):
        if a[i] == "--src": src = a[i + 1]; i += 2
        elif a[i] == "--props": props = a[i + 1].split(","); i += 2
        elif a[i] == "--thorough": thorough = True; i += 1
        else: i += 1
    wt = f"/tmp/sv-{pid}-{k}"
    subprocess.run(["git", "-C", "/repo", "worktree", "remove", "--force", wt], stdout=subprocess.DEVNULL, stderr=subprocess.DEVNULL)
    rc, out = sh(["git", "-C", "/repo", "worktree", "add", "-q", wt, "HEAD"])
    assert rc == 0, out
    meta = {"property": pid, "seed": k, "source": src, "verified_at": time.strftime("%Y-%m-%d %H:%M:%S"), "steps": {}}
    try:
        ov = f"/tmp/sv-overlay-{pid}-{k}.json"
        json.dump({"Replace": {f"{wt}/sql/types/spatial_reference_systems.go": os.path.join(VERIF, "overlay", "srs_stub.go")}}, open(ov, "w"))
        demo = f"/tmp/sv-demo-{pid}-{k}"
        shutil.rmtree(demo, ignore_errors=True)
        shutil.copytree(os.path.join(src, "demo"), demo)
        gm = open(os.path.join(demo, "go.mod")).read()
        gm = re.sub(r"(replace github.com/dolthub/go-mysql-server => )\S+", r"\g<1>" + wt, gm)
        open(os.path.join(demo, "go.mod"), "w").write(gm)
        shutil.copy(os.path.join(wt, "go.sum"), os.path.join(demo, "go.sum"))
        run_demo = ["go", "run", "-overlay", ov, "."]
        rc, out = sh(run_demo, cwd=demo)
        meta["steps"]["demo_on_clean"] = {"rc": rc, "tail": out[-600:]}
        print(f"[1] demo on clean tree: rc={rc}")
        rc, out = sh(["git", "-C", wt, "apply", os.path.join(src, "patch.diff")])
        rediffed = False
        if rc != 0:
            # the seeder's worktree may predate a later fix: commit in /repo; fall back to a fuzzy apply and re-diff
            rc, out2 = sh(f"patch -p1 -F3 --no-backup-if-mismatch < {os.path.join(src, 'patch.diff')}", cwd=wt)
            rediffed = rc == 0
            out += out2
        assert rc == 0, "patch does not apply: " + out
        if rediffed:
            sh("find . -name '*.orig' -o -name '*.rej' | xargs -r rm -f", cwd=wt)
            sh(["git", "-C", wt, "add", "-N", "."])
            rc2, d = sh(["git", "-C", wt, "diff"])
            open(os.path.join(src, "patch.diff"), "w").write(d)
            meta["patch_rediffed_against_head"] = True
        rc, out = sh(["go", "build", "-overlay", ov, "./..."], cwd=wt)
        meta["steps"]["build"] = {"rc": rc, "tail": out[-600:]}
        print(f"[2] build with change: rc={rc}")
        rc, out = sh(["bash", os.path.join(VERIF, "tools", "seedkit", "pinned_tests.sh"), wt])
        ok_tests = "FAIL" not in out and rc == 0
        meta["steps"]["pinned_tests"] = {"pass": ok_tests, "tail": out[-900:]}
        print(f"[3] pinned tests with change: {'pass' if ok_tests else 'FAIL'}")
        rc, out = sh(run_demo, cwd=demo)
        meta["steps"]["demo_with_change"] = {"rc": rc, "tail": out[-900:]}
        print(f"[4] demo with change: rc={rc}")
        meta["valid_seed"] = (meta["steps"]["demo_on_clean"]["rc"] == 0 and meta["steps"]["build"]["rc"] == 0 and ok_tests and rc != 0)
        meta["checks"] = {}
        for p in props:
            for tier in (["quick", "thorough"] if not thorough else ["thorough"]):
                rc, out = sh([sys.executable, os.path.join(VERIF, "tools", "check.py"), p, "--tier", tier], cwd=VERIF,
                             env=dict(os.environ, VERIF_REPO=wt), timeout=7200)
                lines = [l for l in out.split("\n") if l.startswith(("VIOLATION", "KNOWN-FINDING", "OK "))]
                detected = any(l.startswith("VIOLATION") for l in lines)
                rep = None
                m = re.search(r"replay=(\S+)", out)
                if m and os.path.exists(m.group(1)):
                    rep = json.load(open(m.group(1)))
                    os.remove(m.group(1))
                meta["checks"][f"{p}:{tier}"] = {"rc": rc, "lines": lines, "detected": detected,
                                                 "with_failing_input": bool(rep and rep.get("kind") == "failing-input"),
                                                 "replay_case": (rep or {}).get("case"), "broken": [(b.get("kind"), b.get("name")) for b in (rep or {}).get("no_longer_checks", (rep or {}).get("broken", []))]}
                print(f"[5] check {p} ({tier}) against the change: {'DETECTED' if detected else 'missed'} {'(failing input)' if rep and rep.get('kind') == 'failing-input' else ''}")
                if detected:
                    break
        dst = os.path.join(VERIF, "seeded", f"{pid}-{k}")
        shutil.rmtree(dst, ignore_errors=True)
        os.makedirs(dst)
        shutil.copy(os.path.join(src, "patch.diff"), dst)
        shutil.copytree(os.path.join(src, "demo"), os.path.join(dst, "demo"))
        if os.path.exists(os.path.join(src, "README.md")):
            shutil.copy(os.path.join(src, "README.md"), dst)
        meta["needs_to_manifest"] = "see README.md"
        meta["what_was_run"] = ["demo on clean worktree", "git apply patch.diff", "go build -overlay ./...", "tools/seedkit/pinned_tests.sh", "demo with change",
                                "VERIF_REPO=<worktree> tools/check.py <prop> --tier quick|thorough"]
        json.dump(meta, open(os.path.join(dst, "meta.json"), "w"), indent=1)
        print(f"stored {dst}; valid_seed={meta['valid_seed']}")
    finally:
        subprocess.run(["git", "-C", "/repo", "worktree", "remove", "--force", wt], stdout=subprocess.DEVNULL, stderr=subprocess.DEVNULL)
        shutil.rmtree(f"/tmp/sv-demo-{pid}-{k}", ignore_errors=True)
        for f in (f"/tmp/sv-overlay-{pid}-{k}.json",):
            if os.path.exists(f): os.remove(f)
        # derived build artefacts of this worktree
        import glob, hashlib
        tag = hashlib.sha1(wt.encode()).hexdigest()[:10]
        for f in glob.glob(os.path.join(VERIF, ".build", f"*.{tag}*")) + glob.glob(os.path.join(VERIF, "overlay", f"overlay.{tag}.json")):
            os.remove(f)
    # restore generated facts/evidence for the unchanged tree
    for p in props:
        sh([sys.executable, os.path.join(VERIF, "tools", "check.py"), p, "--tier", "quick"], cwd=VERIF, env=dict(os.environ))


if __name__ == "__main__":
    main()
