#!/usr/bin/env python3
"""mk_seeder.py Cxx [n] — create a scratch worktree /tmp/seed-wt-Cxx and print the seeder prompt path."""
import json, sys, subprocess, os
pid = sys.argv[1]; n = sys.argv[2] if len(sys.argv) > 2 else "2"
props = {json.loads(l)["id"]: json.loads(l) for l in open("/verif/properties.jsonl") if l.strip()}
p = props[pid]
wt = f"/tmp/seed-wt-{pid}"; out = f"/tmp/seed-out-{pid}"
if not os.path.exists(wt):
    subprocess.check_call(["git", "-C", "/repo", "worktree", "add", "-q", wt, "HEAD"])
os.makedirs(out, exist_ok=True)
os.makedirs("/tmp/seedkit", exist_ok=True)
for f in os.listdir("/verif/tools/seedkit"):
    subprocess.check_call(["cp", os.path.join("/verif/tools/seedkit", f), "/tmp/seedkit/"])
t = open("/verif/tools/seeder_prompt.txt").read()
t = (t.replace("__WT__", wt).replace("__OUT__", out).replace("__ID__", pid).replace("__TITLE__", p["title"])
      .replace("__STATEMENT__", p["statement"]).replace("__QUANT__", p["quantifier"]["text"])
      .replace("__FILES__", ", ".join(p["anchors"]["files"])).replace("__N__", n))
path = f"/tmp/seed-prompt-{pid}.txt"
open(path, "w").write(t)
print(path)
