#!/bin/bash
# MANIFEST.setup_cmd: build the framework offline from files on disk only.
set -e
cd "$(dirname "$0")/.."
export GOFLAGS=-mod=mod GOPROXY=off GOSUMDB=off GOTOOLCHAIN=local
mkdir -p .build evidence replays
python3 tools/mk_overlay.py
cp -n /repo/go.sum harness/go.sum 2>/dev/null || true
# harness binaries (they compile /repo's working tree through the replace directive + overlay)
(cd harness && go1.26.8 build -tags verif -overlay ../overlay/overlay.json -o ../.build/ ./cmd/... ) || echo "setup: some harness binaries failed to build (each check rebuilds its own)"
python3 tools/gen_lakefile.py
# regenerate every fact file so that the Lean library builds
mkdir -p lean/Gms/Generated
for b in .build/c[0-9][0-9]; do
  id=$(basename "$b" | tr a-z A-Z)
  if [ -f "props/$id.json" ]; then "$b" extract --repo /repo --out "lean/Gms/Generated/$id.lean" >/dev/null 2>&1 || true; fi
done
(cd lean && lake build Gms Drivers $(ls Drivers/*.lean | sed 's#Drivers/\(.*\)\.lean#drv_\L\1#') ) || echo "setup: lake build reported failures (each check rebuilds what it needs)"
echo "setup done"
