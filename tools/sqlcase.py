#!/usr/bin/env python3
"""tools/sqlcase.py <cases.txt | payload-file> <id> [k]: print the CREATE/INSERT statements and the k-th
(sql x..) statement of a C02/C05/C06 case payload, one per line — pipe into `.build/c02 sql` to replay a
case by hand on the real engine."""
import sys, re

def tok(s):
    return re.findall(r"\(|\)|[^\s()]+", s)

def parse(ts, i=0):
    out = []
    while i < len(ts):
        t = ts[i]
        if t == "(":
            sub, i = parse(ts, i + 1)
            out.append(sub)
        elif t == ")":
            return out, i + 1
        else:
            out.append(t); i += 1
    return out, i

def val(v):
    if v == "null": return "NULL"
    if v.startswith("x"): return "'" + bytes.fromhex(v[1:]).decode().replace("'", "''") + "'"
    return v

def main():
    path, cid = sys.argv[1], sys.argv[2]
    payload = None
    for line in open(path):
        a, _, b = line.rstrip("\n").partition("\t")
        if a == cid:
            payload = b
    tree, _ = parse(tok(payload))
    items = tree[0][1:]
    has_setup = any(it[0] == "setup" for it in items)
    for it in items:
        if it[0] == "setup":
            for x in it[1:]:
                print(bytes.fromhex(x[1:]).decode())
    for it in items:
        if it[0] == "db" and not has_setup:
            for n, tab in enumerate(it[1:]):
                tys = tab[1]
                cols = ", ".join(f"c{j} {'varchar(16)' if t == 's' else 'int'}" for j, t in enumerate(tys))
                print(f"CREATE TABLE t{n} ({cols})")
                if tab[2:]:
                    print(f"INSERT INTO t{n} VALUES " + ", ".join("(" + ", ".join(val(v) for v in r) + ")" for r in tab[2:]))
    for it in items:
        if it[0] in ("sql", "sql2", "sqls"):
            for x in it[1:]:
                print(bytes.fromhex(x[1:]).decode())

main()
