#!/usr/bin/env python3
"""Rewrite the generated part of DESIGN.md (between the as-built markers): one block per claimed property built from
props/Cxx.json, evidence/Cxx.json, known_findings/Cxx.jsonl and seeded/Cxx-*/meta.json."""
import json, os, glob, re
V = os.path.dirname(os.path.dirname(os.path.abspath(__file__)))
acc = open(os.path.join(V, "props/accepted.txt")).read().split()
titles = {json.loads(l)["id"]: json.loads(l)["title"] for l in open(os.path.join(V, "properties.jsonl")) if l.strip()}
out = []
out.append("| property | obligations | cases (last quick run) | findings listed | fixed | seeded changes: caught with input / caught no-input / missed |")
out.append("|---|---|---|---|---|---|")
blocks = []
for pid in sorted(acc):
    cfg = json.load(open(os.path.join(V, "props", pid + ".json")))
    evp = os.path.join(V, "evidence", pid + ".json")
    ev = json.load(open(evp)) if os.path.exists(evp) else {}
    cov = ev.get("coverage", {})
    kf, fx = [], []
    kp = os.path.join(V, "known_findings", pid + ".jsonl")
    if os.path.exists(kp):
        for l in open(kp):
            l = l.strip()
            if l and not l.startswith("#"):
                r = json.loads(l)
                (fx if r.get("kind") == "fixed" else kf).append(r)
    seeds = []
    for m in sorted(glob.glob(os.path.join(V, "seeded", pid + "-*", "meta.json"))):
        try:
            md = json.load(open(m))
        except Exception:
            continue
        name = os.path.basename(os.path.dirname(m))
        det = [(k, v) for k, v in md.get("checks", {}).items()]
        caught_in = any(v.get("detected") and v.get("with_failing_input") for _, v in det)
        caught = any(v.get("detected") for _, v in det)
        seeds.append((name, "input" if caught_in else ("no-input" if caught else "missed"), md))
    c_in = sum(1 for s in seeds if s[1] == "input"); c_no = sum(1 for s in seeds if s[1] == "no-input"); c_mi = sum(1 for s in seeds if s[1] == "missed")
    out.append(f"| {pid} {titles[pid]} | {cov.get('discharged','?')}/{cov.get('obligations','?')} | {cov.get('evaluations', ev.get('evaluations','?'))} | {len(kf)} | {len(fx)} | {c_in} / {c_no} / {c_mi} |")
    b = [f"#### {pid} — {titles[pid]}", "", f"*Technique.* {cfg['technique']}", "", f"*What is proved / tied.* {cfg['level_text']}", "", f"*Trusted / modelled, not verified.* {cfg['level_note']}", ""]
    if kf:
        b.append("*Findings on the unchanged tree (listed in `known_findings/%s.jsonl`):*" % pid)
        for r in kf:
            b.append(f"- `{r['region']}` — {r['what']} Witness: {r.get('witness','')}")
        b.append("")
    if fx:
        b.append("*Repaired by `fix:` commits:*")
        for r in fx:
            b.append(f"- `{r['region']}` ({r.get('commit','?')}) — {r['what']}")
        b.append("")
    if seeds:
        b.append("*Independently seeded changes (`seeded/`):*")
        for name, res, md in seeds:
            rd = os.path.join(V, "seeded", name, "README.md")
            first = ""
            if os.path.exists(rd):
                for l in open(rd):
                    l = l.strip()
                    if l and not l.startswith("#"):
                        first = l[:220]; break
            b.append(f"- `{name}`: {'caught with a failing input' if res=='input' else ('reported, no failing input found' if res=='no-input' else 'MISSED')} — {first}")
        b.append("")
    blocks.append("\n".join(b))
import subprocess
def wc(pattern):
    return sum(len(open(f, errors="replace").read().splitlines()) for f in glob.glob(os.path.join(V, pattern), recursive=True))
nth = 0
for f in glob.glob(os.path.join(V, "lean/Gms/Props/*.lean")) + glob.glob(os.path.join(V, "lean/Gms/Lemmas/*.lean")):
    nth += len(re.findall(r"^(?:theorem|lemma) ", open(f).read(), re.M))
tot_ob = 0; nfind = 0; nfixed = 0
for pid in acc:
    evp = os.path.join(V, "evidence", pid + ".json")
    if os.path.exists(evp):
        tot_ob += json.load(open(evp)).get("coverage", {}).get("obligations", 0)
    kp = os.path.join(V, "known_findings", pid + ".jsonl")
    if os.path.exists(kp):
        for l in open(kp):
            l = l.strip()
            if l and not l.startswith("#"):
                if json.loads(l).get("kind") == "fixed": nfixed += 1
                else: nfind += 1
nseed = len(glob.glob(os.path.join(V, "seeded", "*", "meta.json")))
stats = (f"Size of what is checked on every run: {wc('lean/Gms/Model/*.lean')} lines of executable Lean models, "
         f"{wc('lean/Gms/Lemmas/*.lean') + wc('lean/Gms/Props/*.lean')} lines of proofs ({nth} theorems/lemmas; {tot_ob} proof obligations "
         f"counted by the checks, examples included), {wc('lean/Drivers/*.lean') + wc('lean/Gms/Driver/*.lean')} lines of drivers, "
         f"{wc('harness/**/*.go')} lines of Go harness (extractors, generators, oracles); {nfind} listed findings of the unchanged tree, "
         f"{nfixed} finding entries repaired by fix: commits; {nseed} independently seeded changes verified.\n\n")
gen = stats + "\n".join(out) + "\n\n" + "\n".join(blocks)
p = os.path.join(V, "DESIGN.md")
s = open(p).read()
B, E = "<!-- BEGIN as-built register (generated by tools/gen_design_register.py) -->", "<!-- END as-built register -->"
if B not in s:
    raise SystemExit("markers missing in DESIGN.md")
s = s[:s.index(B) + len(B)] + "\n\n" + gen + "\n" + s[s.index(E):]
open(p, "w").write(s)
print("register:", len(acc), "properties")
