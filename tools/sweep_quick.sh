#!/bin/bash
# usage: tools/sweep_quick.sh "SEEDS" ID...   (run from a /verif snapshot; builds everything first)
seeds=$1; shift
tools/setup.sh > setup.log 2>&1
for id in "$@"; do
  for s in $seeds; do
    t0=$(date +%s)
    VERIF_SEED=$s python3 tools/check.py $id --tier quick > quick.$id.$s.log 2>&1
    rc=$?
    echo "$id seed=$s rc=$rc t=$(( $(date +%s)-t0 )) kf=$(grep -c KNOWN-FINDING quick.$id.$s.log) $(grep VIOLATION quick.$id.$s.log | head -1)"
    if [ $rc -ne 0 ]; then mkdir -p failed; cp -r replays failed/replays.$id.$s 2>/dev/null; fi
  done
done
