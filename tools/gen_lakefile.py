#!/usr/bin/env python3
"""Regenerate lean/lakefile.toml: library `Gms` plus one core-only `lean_exe` per Drivers/*.lean."""
import os, glob
VERIF = os.path.dirname(os.path.dirname(os.path.abspath(__file__)))
lean = os.path.join(VERIF, "lean")
out = ['name = "Gms"', 'version = "0.1.0"', 'defaultTargets = ["Gms"]', '', '[[lean_lib]]', 'name = "Gms"', 'globs = ["Gms.+"]', '',
       '[[lean_lib]]', 'name = "Drivers"', 'globs = ["Drivers.+"]', '']
for f in sorted(glob.glob(os.path.join(lean, "Drivers", "*.lean"))):
    n = os.path.splitext(os.path.basename(f))[0]
    out += ['[[lean_exe]]', f'name = "drv_{n.lower()}"', f'root = "Drivers.{n}"', '']
tmp = os.path.join(lean, f"lakefile.toml.{os.getpid()}.tmp")
open(tmp, "w").write("\n".join(out))
os.replace(tmp, os.path.join(lean, "lakefile.toml"))
