#!/usr/bin/env python3
"""Generate MANIFEST.json from props/*.json (claimed checks) and properties.jsonl (the rest → not_applicable)."""
import json, os, glob, subprocess
VERIF = os.path.dirname(os.path.dirname(os.path.abspath(__file__)))
props = [json.loads(l) for l in open(os.path.join(VERIF, "properties.jsonl")) if l.strip()]
accepted_path = os.path.join(VERIF, "props", "accepted.txt")
accepted = set(open(accepted_path).read().split()) if os.path.exists(accepted_path) else set()
cfgs = {}
for f in sorted(glob.glob(os.path.join(VERIF, "props", "C*.json"))):
    c = json.load(open(f))
    if c.get("disabled") or c["id"] not in accepted:
        continue
    cfgs[c["id"]] = c
na_path = os.path.join(VERIF, "props", "not_applicable.json")
na_reasons = json.load(open(na_path)) if os.path.exists(na_path) else {}
hooks_path = os.path.join(VERIF, "props", "hooks.json")
hooks = json.load(open(hooks_path)) if os.path.exists(hooks_path) else {"source_commits": []}
checks, na = [], []
for p in props:
    pid = p["id"]
    c = cfgs.get(pid)
    if not c:
        na.append({"property_id": pid, "reason": na_reasons.get(pid, "not claimed yet: the Lean model, theorems and correspondence harness for this property are not built in this round (planned in DESIGN.md §6)")})
        continue
    chk = {
        "property_id": pid,
        "quick_cmd": f"python3 tools/check.py {pid} --tier quick",
        "thorough_cmd": f"python3 tools/check.py {pid} --tier thorough",
        "evidence_file": f"/verif/evidence/{pid}.json",
        "replay_cmd_template": f"python3 tools/check.py {pid} --replay {{path}}",
        "engine": "lean4-proof+correspondence",
        "level_claimed": {"category": c.get("level_category", "proof"), "text": c["level_text"], "design_ref": c.get("design_ref", f"DESIGN.md §6 {pid}")},
        "level_note": c["level_note"],
        "technique": c["technique"],
    }
    checks.append(chk)
m = {
    "version": 1,
    "setup_cmd": "tools/setup.sh",
    "hooks": {
        "guard": "verif",
        "enable": "go1.26.8 build -tags verif -overlay /verif/overlay/overlay.json (run by tools/check.py; the overlay supplies a stub for the emptied sql/types/spatial_reference_systems.go and adds read-only accessor files, it edits nothing in /repo)",
        "baseline_off_cmd": json.load(open("/root/.vp/BASELINE.json"))["cmd"] if os.path.exists("/root/.vp/BASELINE.json") else "",
        "source_commits": hooks.get("source_commits", []),
        "add_only": True,
    },
    "engines": [{
        "name": "lean4-proof+correspondence", "path": "/verif/tools/check.py",
        "serves_properties": [c["property_id"] for c in checks],
        "kind_free_text": "Lean 4 theorems about executable models (lean/Gms), tied to /repo on every run by regenerated fact files (harness extractors, go/ast + run-time table dumps) and by a line-protocol correspondence between the real Go code and compiled core-only Lean drivers; property oracles on the implementation provide replays",
    }],
    "checks": checks,
    "notes": "See DESIGN.md and FRAMEWORK.md. Known findings: known_findings/<id>.jsonl. Seeded mutants: seeded/.",
    "not_applicable": na,
}
json.dump(m, open(os.path.join(VERIF, "MANIFEST.json"), "w"), indent=1)
print(f"{len(checks)} checks, {len(na)} not claimed")
