#!/usr/bin/env python3
"""Write /verif/overlay/overlay.json: the stub for the emptied SRS file plus every
overlay/files/<pkg>/<file>.go mapped into <repo>/<pkg>/<file>.go (files that do not exist in the
repository; they only add exported accessors under build tag `verif`)."""
import json, os, sys
VERIF = os.path.dirname(os.path.dirname(os.path.abspath(__file__)))
repo = os.environ.get("VERIF_REPO", "/repo")
out = sys.argv[1] if len(sys.argv) > 1 else os.path.join(VERIF, "overlay", "overlay.json")
rep = {os.path.join(repo, "sql/types/spatial_reference_systems.go"): os.path.join(VERIF, "overlay", "srs_stub.go")}
root = os.path.join(VERIF, "overlay", "files")
for d, _, fs in os.walk(root):
    for f in fs:
        if f.endswith(".go"):
            rel = os.path.relpath(os.path.join(d, f), root)
            target = os.path.join(repo, rel)
            if os.path.exists(target):
                sys.exit(f"overlay file would shadow an existing repository file: {target}")
            rep[target] = os.path.join(d, f)
# the emptied file is only replaced while it is still empty
srs = os.path.join(repo, "sql/types/spatial_reference_systems.go")
if os.path.exists(srs) and os.path.getsize(srs) > 0:
    del rep[srs]
tmp = f"{out}.{os.getpid()}.tmp"
json.dump({"Replace": rep}, open(tmp, "w"), indent=1)
os.replace(tmp, out)
