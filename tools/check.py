#!/usr/bin/env python3
"""
tools/check.py Cxx [--tier quick|thorough] [--replay FILE]

The only entry point MANIFEST.json registers. For one property it

  1. rebuilds the harness binary from the repository's current working tree (go build -overlay),
  2. regenerates the Lean fact file from the source (extractor) — the regenerated part of the tie,
  3. re-checks every proof obligation (lake build of Gms.Props.Cxx) and audits axioms,
  4. runs the real code and the Lean model on the same generated cases and diffs them
     (correspondence), and evaluates the property on the real code (oracle),
  5. decides: exit 0 / KNOWN-FINDING lines / `VIOLATION property=Cxx replay=<path>` + exit 1,
  6. writes evidence/Cxx.json.

Environment: VERIF_SEED (int), VERIF_TIER (quick|thorough), VERIF_REPO (default /repo; never set
by MANIFEST commands — used to point the machinery at a scratch copy when validating it).
"""
import sys, os, json, re, subprocess, time, tempfile, shutil, hashlib, glob

VERIF = os.path.dirname(os.path.dirname(os.path.abspath(__file__)))
LEAN = os.path.join(VERIF, "lean")
HARNESS = os.path.join(VERIF, "harness")
BUILD = os.path.join(VERIF, ".build")
REPO = os.environ.get("VERIF_REPO", "/repo")
ALLOWED_AXIOMS = {"propext", "Classical.choice", "Quot.sound"}
FORBIDDEN = re.compile(r"\bsorry\b|\badmit\b|^\s*axiom\s|native_decide|bv_decide|implemented_by|^\s*unsafe\s|maxHeartbeats\s+0\b")

GOENV = dict(os.environ, GOFLAGS="-mod=mod", GOPROXY="off", GOSUMDB="off", GOTOOLCHAIN="local",
             CGO_ENABLED="1")


def sh(cmd, cwd=None, env=None, timeout=None, stdin=None, stdout_path=None):
    t0 = time.time()
    out_f = open(stdout_path, "wb") if stdout_path else subprocess.PIPE
    try:
        p = subprocess.run(cmd, cwd=cwd, env=env, stdin=stdin, stdout=out_f, stderr=subprocess.PIPE if stdout_path else subprocess.STDOUT,
                           timeout=timeout)
        rc = p.returncode
        out = (p.stderr if stdout_path else p.stdout) or b""
    except subprocess.TimeoutExpired as e:
        rc, out = 124, (e.stdout or b"") + b"\nTIMEOUT"
    finally:
        if stdout_path:
            out_f.close()
    return rc, out.decode("utf-8", "replace"), time.time() - t0


def load_cfg(pid):
    path = os.path.join(VERIF, "props", pid + ".json")
    cfg = json.load(open(path))
    cfg.setdefault("id", pid)
    cfg.setdefault("harness", pid.lower())
    cfg.setdefault("lean_props", "Gms.Props." + pid)
    cfg.setdefault("driver", pid)
    cfg.setdefault("generated", True)
    cfg.setdefault("timeout", {"quick": 600, "thorough": 3600})
    return cfg


def known_findings(pid):
    """Listed findings of this property: known_findings/<pid>.jsonl (committed; never written at run time)."""
    res = {}
    path = os.path.join(VERIF, "known_findings", pid + ".jsonl")
    if os.path.exists(path):
        for line in open(path):
            line = line.strip()
            if not line or line.startswith("#"):
                continue
            r = json.loads(line)
            if r.get("property") == pid and r.get("kind") == "finding":
                res[r["region"]] = r
    return res


# ---------------------------------------------------------------------------------------------
# Lean side

def ensure_lakefile(cfg):
    lf = os.path.join(LEAN, "lakefile.toml")
    want = f'name = "drv_{cfg["driver"].lower()}"'
    if not os.path.exists(lf) or want not in open(lf).read():
        sh([sys.executable, os.path.join(VERIF, "tools", "gen_lakefile.py")])


DECL = re.compile(r"^\s*(?:@\[[^\]]*\]\s*)?(?:private\s+|protected\s+)?(theorem|lemma|example)\b\s*([^\s:({\[]*)")
NS = re.compile(r"^\s*namespace\s+(\S+)")
END = re.compile(r"^\s*end\s+(\S+)")


def lean_file_of(module):
    return os.path.join(LEAN, *module.split(".")) + ".lean"


def strip_comments(text):
    # remove /- ... -/ (nested not handled beyond one level) and -- comments
    text = re.sub(r"/-.*?-/", lambda m: "\n" * m.group(0).count("\n"), text, flags=re.S)
    return "\n".join(l.split("--")[0] for l in text.split("\n"))


def scan_decls(module):
    """[(kind, fully qualified name or None, line)] for theorem/lemma/example in a module."""
    path = lean_file_of(module)
    text = strip_comments(open(path).read())
    stack, out = [], []
    for i, line in enumerate(text.split("\n"), 1):
        m = NS.match(line)
        if m:
            stack.append(m.group(1)); continue
        m = END.match(line)
        if m and stack and stack[-1].split(".")[-1] == m.group(1).split(".")[-1]:
            stack.pop(); continue
        m = DECL.match(line)
        if m:
            kind, name = m.group(1), m.group(2)
            fq = ".".join(stack + [name]) if name else None
            out.append((kind, fq, i))
    return out


def imported_local_modules(module, seen=None):
    seen = seen if seen is not None else []
    if module in seen:
        return seen
    seen.append(module)
    path = lean_file_of(module)
    if not os.path.exists(path):
        return seen
    for line in open(path):
        m = re.match(r"^\s*import\s+(Gms\.\S+)", line)
        if m:
            imported_local_modules(m.group(1), seen)
    return seen


def lean_obligations(cfg, log):
    """Build the property module; return dict with obligations/discharged/failures/axioms."""
    mod = cfg["lean_props"]
    mods = imported_local_modules(mod)
    decls = []
    forbidden_hits = []
    for m in mods:
        p = lean_file_of(m)
        if not os.path.exists(p):
            continue
        for d in scan_decls(m):
            decls.append((m,) + d)
        for i, line in enumerate(strip_comments(open(p).read()).split("\n"), 1):
            if FORBIDDEN.search(line):
                forbidden_hits.append(f"{m}:{i}: {line.strip()}")
    rc, out, dt = sh(["lake", "build", mod], cwd=LEAN, timeout=3600)
    log.append(f"$ lake build {mod}  (rc={rc}, {dt:.1f}s)\n" + out[-6000:])
    failures = []
    if rc != 0:
        # map each error location to the enclosing declaration
        errs = re.findall(r"error: (\S+?\.lean):(\d+):(\d+): (.*)", out)
        for f, ln, _, msg in errs:
            ln = int(ln)
            modname = os.path.splitext(os.path.relpath(os.path.join(LEAN, f) if not os.path.isabs(f) else f, LEAN))[0].replace("/", ".")
            best = None
            for (m, kind, fq, line) in decls:
                if m == modname and line <= ln:
                    best = (fq or f"{kind}@{m}:{line}")
            failures.append({"decl": best or f"{modname}:{ln}", "where": f"{f}:{ln}", "message": msg[:300]})
        if not failures:
            failures.append({"decl": mod, "where": mod, "message": out[-800:]})
    # audit axioms of the property theorems (those declared in the Props module itself)
    axioms = {}
    bad_axioms = []
    if rc == 0:
        names = [fq for (m, kind, fq, _) in decls if m == mod and kind != "example" and fq]
        os.makedirs(os.path.join(BUILD, "audit"), exist_ok=True)
        apath = os.path.join(BUILD, "audit", cfg["id"] + ".lean")
        with open(apath, "w") as f:
            f.write(f"import {mod}\n" + "".join(f"#print axioms {n}\n" for n in names))
        rc2, out2, dt2 = sh(["lake", "env", "lean", apath], cwd=LEAN, timeout=1800)
        log.append(f"$ lake env lean audit/{cfg['id']}.lean (rc={rc2}, {dt2:.1f}s)\n" + out2[-3000:])
        cur = None
        for mm in re.finditer(r"'(\S+)' (does not depend on any axioms|depends on axioms: \[([^\]]*)\])", out2.replace("\n", " ")):
            name = mm.group(1)
            axs = [a.strip() for a in (mm.group(3) or "").split(",") if a.strip()]
            axioms[name] = axs
            for a in axs:
                if a not in ALLOWED_AXIOMS:
                    bad_axioms.append(f"{name}: {a}")
        if rc2 != 0 or len(axioms) != len(names):
            failures.append({"decl": "axiom-audit", "where": apath, "message": out2[-500:]})
    for h in forbidden_hits:
        failures.append({"decl": "forbidden-construct", "where": h, "message": h})
    for b in bad_axioms:
        failures.append({"decl": "axiom-audit", "where": b, "message": "non-standard axiom " + b})
    n = len(decls)
    failed_decls = {f["decl"] for f in failures}
    return {"obligations": n, "discharged": n if not failures else max(0, n - len(failed_decls)),
            "failures": failures, "axioms": axioms, "modules": mods,
            "theorems": [fq for (m, kind, fq, _) in decls if m == mod and fq]}


# ---------------------------------------------------------------------------------------------
# Go side

def go_modfile():
    """go.mod to build with: the committed one for /repo, a derived one for VERIF_REPO."""
    if REPO == "/repo":
        return None
    os.makedirs(BUILD, exist_ok=True)
    tag = hashlib.sha1(REPO.encode()).hexdigest()[:10]
    mf = os.path.join(BUILD, f"go.{tag}.mod")
    txt = open(os.path.join(HARNESS, "go.mod")).read().replace("=> /repo", "=> " + REPO)
    open(mf, "w").write(txt)
    shutil.copy(os.path.join(HARNESS, "go.sum"), os.path.join(BUILD, f"go.{tag}.sum"))
    return mf


def overlay_path():
    tag = "" if REPO == "/repo" else "." + hashlib.sha1(REPO.encode()).hexdigest()[:10]
    p = os.path.join(VERIF, "overlay", f"overlay{tag}.json")
    rc, out, _ = sh([sys.executable, os.path.join(VERIF, "tools", "mk_overlay.py"), p], env=dict(os.environ, VERIF_REPO=REPO))
    if rc != 0:
        raise RuntimeError("mk_overlay failed: " + out)
    return p


def build_harness(cfg, log):
    os.makedirs(BUILD, exist_ok=True)
    tag = "" if REPO == "/repo" else "." + hashlib.sha1(REPO.encode()).hexdigest()[:10]
    binp = os.path.join(BUILD, cfg["harness"] + tag)
    cmd = ["go1.26.8", "build", "-tags", "verif", "-overlay", overlay_path()]
    mf = go_modfile()
    if mf:
        cmd += ["-modfile", mf]
    if cfg.get("race"):
        cmd += ["-race"]
    cmd += ["-o", binp, "./cmd/" + cfg["harness"]]
    if not os.path.exists(os.path.join(HARNESS, "go.sum")):
        shutil.copy(os.path.join(REPO, "go.sum"), os.path.join(HARNESS, "go.sum"))
    rc, out, dt = sh(cmd, cwd=HARNESS, env=GOENV, timeout=1800)
    log.append(f"$ {' '.join(cmd)} (rc={rc}, {dt:.1f}s)\n" + out[-4000:])
    return (binp if rc == 0 else None), out


def read_tsv(path, nfields):
    res = {}
    if not os.path.exists(path):
        return res
    with open(path, encoding="utf-8", errors="replace") as f:
        for line in f:
            line = line.rstrip("\n")
            if not line:
                continue
            parts = line.split("\t")
            parts += [""] * (nfields - len(parts))
            res.setdefault(parts[0], []).append(parts[1:nfields] if nfields > 2 else parts[1])
    return res


def run_cases(cfg, binp, seed, tier, focus, scratch, log):
    """Run harness + driver; return comparison summary."""
    out_dir = tempfile.mkdtemp(prefix="run-", dir=scratch)
    cmd = [binp, "run", "--seed", str(seed), "--tier", tier, "--out", out_dir, "--repo", REPO]
    if focus:
        cmd += ["--focus", focus]
    env = dict(GOENV, GOMEMLIMIT=cfg.get("gomemlimit", "12GiB"))
    rc, out, dt = sh(cmd, env=env, timeout=cfg["timeout"][tier])
    log.append(f"$ {' '.join(cmd)} (rc={rc}, {dt:.1f}s)\n" + out[-3000:])
    res = {"harness_rc": rc, "harness_out": out[-2000:], "dir": out_dir, "harness_s": dt}
    if rc != 0:
        return res
    cases_p = os.path.join(out_dir, "cases.txt")
    model_p = os.path.join(out_dir, "model.txt")
    drv = os.path.join(LEAN, ".lake", "build", "bin", "drv_" + cfg["driver"].lower())
    with open(cases_p, "rb") as fin:
        rc2, err2, dt2 = sh([drv], stdin=fin, stdout_path=model_p, timeout=cfg["timeout"][tier])
    log.append(f"$ {drv} < cases.txt (rc={rc2}, {dt2:.1f}s)\n" + err2[-2000:])
    res["driver_rc"] = rc2
    res["driver_s"] = dt2
    if rc2 != 0:
        res["driver_out"] = err2[-2000:]
        return res
    # compare
    payloads = {}
    with open(cases_p, encoding="utf-8", errors="replace") as f:
        for line in f:
            i = line.find("\t")
            if i > 0:
                payloads[line[:i]] = line[i + 1:].rstrip("\n")
    impl = {}
    with open(os.path.join(out_dir, "impl.txt"), encoding="utf-8", errors="replace") as f:
        for line in f:
            i = line.find("\t")
            if i > 0:
                impl[line[:i]] = line[i + 1:].rstrip("\n")
    disagreements, failing, compared = [], [], 0
    seen_ids = set()
    with open(model_p, encoding="utf-8", errors="replace") as f:
        for line in f:
            parts = line.rstrip("\n").split("\t")
            if len(parts) < 2:
                continue
            cid, mobs = parts[0], parts[1]
            spec = parts[2] if len(parts) > 2 and parts[2] != "" else "="
            region = parts[3] if len(parts) > 3 and parts[3] != "" else "-"
            if spec == "=":
                spec = mobs
            seen_ids.add(cid)
            iobs = impl.get(cid)
            if iobs is None:
                continue
            compared += 1
            case = {"id": cid, "payload": payloads.get(cid, ""), "impl": iobs, "model": mobs, "spec": spec, "region": region}
            if iobs != mobs:
                disagreements.append(case)
            if iobs != spec and spec != "?":
                failing.append(dict(case, source="impl-vs-spec"))
    missing = [c for c in impl if c not in seen_ids]
    if missing:
        disagreements.append({"id": missing[0], "payload": payloads.get(missing[0], ""), "impl": impl[missing[0]],
                              "model": "<no answer from the model driver>", "spec": "?", "region": "-"})
    # model-free oracle failures reported by the harness
    with open(os.path.join(out_dir, "oracle.txt"), encoding="utf-8", errors="replace") as f:
        for line in f:
            parts = line.rstrip("\n").split("\t")
            if len(parts) < 3:
                continue
            cid, tag, desc = parts[0], parts[1], parts[2]
            failing.append({"id": cid, "payload": payloads.get(cid, ""), "impl": impl.get(cid, ""), "model": "", "spec": "",
                            "region": tag, "desc": desc, "source": "oracle"})
    # an oracle failure without a tag inherits the region the model assigned to that case
    regions_by_id = {c["id"]: c["region"] for c in failing if c.get("source") == "impl-vs-spec" and c["region"] != "-"}
    for c in failing:
        if c["region"] == "-" and c["id"] in regions_by_id:
            c["region"] = regions_by_id[c["id"]]
    res.update({"compared": compared, "disagreements": disagreements, "failing": failing})
    try:
        res["stats"] = json.load(open(os.path.join(out_dir, "stats.json")))
    except Exception as e:
        res["stats"] = {"error": str(e)}
    return res


# ---------------------------------------------------------------------------------------------

def write_replay(pid, n, body):
    os.makedirs(os.path.join(VERIF, "replays"), exist_ok=True)
    path = os.path.join(VERIF, "replays", f"{pid}-{n}.json")
    json.dump(body, open(path, "w"), indent=1)
    return path


def main():
    args = sys.argv[1:]
    if not args:
        print(__doc__); sys.exit(2)
    pid = args[0]
    tier = os.environ.get("VERIF_TIER", "quick")
    replay = None
    i = 1
    while i < len(args):
        if args[i] == "--tier":
            tier = args[i + 1]; i += 2
        elif args[i] == "--replay":
            replay = args[i + 1]; i += 2
        else:
            i += 1
    if tier not in ("quick", "thorough"):
        tier = "quick"
    seed = int(os.environ.get("VERIF_SEED", "1") or "1")
    if replay:
        rb = json.load(open(replay))
        seed, tier = rb.get("seed", seed), rb.get("tier", tier)
    cfg = load_cfg(pid)
    ensure_lakefile(cfg)
    t0 = time.time()
    log = []
    scratch = tempfile.mkdtemp(prefix=f"verif-{pid}-")
    violations = []   # (replay body)
    known_lines = []
    broken = []       # broken obligations / correspondence (names)
    try:
        # 1-2. harness build + facts
        binp, bout = build_harness(cfg, log)
        facts = None
        if binp is None:
            broken.append({"kind": "harness-build", "name": f"go build ./cmd/{cfg['harness']} against {REPO}", "detail": bout[-1500:]})
        gen_rel = None
        if cfg["generated"]:
            gen_rel = os.path.join("Gms", "Generated", pid + ".lean")
            gen_path = os.path.join(LEAN, gen_rel)
            if binp:
                if os.path.exists(gen_path):
                    os.remove(gen_path)
                rc, out, dt = sh([binp, "extract", "--repo", REPO, "--out", gen_path], env=GOENV, timeout=900)
                log.append(f"$ {binp} extract (rc={rc}, {dt:.1f}s)\n" + out[-2000:])
                if rc != 0 or not os.path.exists(gen_path):
                    broken.append({"kind": "fact-extraction", "name": gen_rel, "detail": out[-1500:]})
                else:
                    facts = open(gen_path).read()
        # 3. proof obligations
        ob = lean_obligations(cfg, log)
        for f in ob["failures"]:
            broken.append({"kind": "proof-obligation", "name": f["decl"], "detail": f["where"] + ": " + f["message"]})
        # driver
        rc, out, dt = sh(["lake", "build", "drv_" + cfg["driver"].lower()], cwd=LEAN, timeout=3600)
        log.append(f"$ lake build drv_{cfg['driver'].lower()} (rc={rc}, {dt:.1f}s)\n" + out[-3000:])
        driver_ok = rc == 0
        if not driver_ok:
            broken.append({"kind": "driver-build", "name": "drv_" + cfg["driver"].lower(), "detail": out[-1500:]})
        if tier == "thorough" and not ob["failures"]:
            rc, out, dt = sh(["lake", "env", "leanchecker", cfg["lean_props"]], cwd=LEAN, timeout=3600)
            log.append(f"$ lake env leanchecker {cfg['lean_props']} (rc={rc}, {dt:.1f}s)\n" + out[-1500:])
            if rc != 0:
                broken.append({"kind": "proof-obligation", "name": "leanchecker " + cfg["lean_props"], "detail": out[-1500:]})
        # 4. correspondence + oracle
        runs = []
        if binp and driver_ok:
            r = run_cases(cfg, binp, seed, tier, "", scratch, log)
            runs.append(r)
            if r.get("harness_rc", 1) != 0:
                broken.append({"kind": "harness-run", "name": cfg["harness"] + " run", "detail": r.get("harness_out", "")})
            elif r.get("driver_rc", 1) != 0:
                broken.append({"kind": "driver-run", "name": "drv_" + cfg["driver"].lower(), "detail": r.get("driver_out", "")})
            else:
                for d in r["disagreements"][:1]:
                    broken.append({"kind": "correspondence", "name": f"model vs implementation on case {d['id']}", "detail": json.dumps(d)[:1500]})
            # targeted search when something broke and no failing input is at hand yet
            kf0 = known_findings(pid)
            unknown0 = [c for c in r.get("failing", []) if c["region"] not in kf0]
            if broken and not unknown0 and tier == "quick" and binp and driver_ok and r.get("harness_rc") == 0:
                focus = broken[0]["name"]
                r2 = run_cases(dict(cfg, timeout={"thorough": cfg.get("search_timeout", 900)}), binp, seed + 7919, "thorough", focus, scratch, log)
                runs.append(r2)
        # 5. decide
        kf = known_findings(pid)
        failing_all = [c for r in runs for c in r.get("failing", [])]
        unknown = [c for c in failing_all if c["region"] not in kf]
        by_region = {}
        for c in failing_all:
            if c["region"] in kf:
                by_region.setdefault(c["region"], []).append(c)
        for region, cs in sorted(by_region.items()):
            known_lines.append(f"KNOWN-FINDING: property={pid} {kf[region]['what']} [region {region}; {len(cs)} case(s) this run, e.g. {cs[0]['payload'][:160]}]")
        if unknown:
            c = min(unknown, key=lambda c: (len(c.get("payload", "")), c.get("id", "")))
            body = {"property": pid, "kind": "failing-input", "seed": seed, "tier": tier, "case": c,
                    "n_failing_cases": len(unknown), "broken": broken,
                    "replay": f"tools/check.py {pid} --replay <this file>  (re-runs seed {seed}, tier {tier}; the case payload is the input)"}
            violations.append((body, False))
        elif broken:
            body = {"property": pid, "kind": "no-failing-input-found", "seed": seed, "tier": tier,
                    "no_longer_checks": broken, "searched": [{"tier": "thorough" if i else tier, "cases": r.get("compared", 0)} for i, r in enumerate(runs)],
                    "replay": f"tools/check.py {pid}  (the named theorem / correspondence no longer checks against {REPO})"}
            violations.append((body, True))
        # 6. evidence
        stats = {}
        for r in runs[:1]:
            stats = r.get("stats", {})
        compared = sum(r.get("compared", 0) for r in runs)
        ev = {
            "property_id": pid, "tier": tier, "seed": seed, "level": cfg.get("level_category", "proof"),
            "coverage": {
                "obligations": max(1, ob["obligations"]), "discharged": ob["discharged"],
                "checker_cmd": f"cd lean && lake build {cfg['lean_props']}" + (f" && lake env leanchecker {cfg['lean_props']}" if tier == "thorough" else ""),
                "trusted_base": cfg.get("trusted_base", []) + ["Lean 4.33.0 kernel", "axioms: " + ", ".join(sorted({a for v in ob["axioms"].values() for a in v}) or ["none"]),
                                                              "tools/check.py + harness/cmd/" + cfg["harness"] + " (extractor, generators, diff)"],
                "theorems": ob["theorems"], "axioms_per_theorem": ob["axioms"], "lean_modules": ob["modules"],
                "evaluations": max(1, stats.get("evaluations", 0)) if runs else 0,
                "distinct_nontrivial": stats.get("distinct_nontrivial", 0),
                "distinct": stats.get("distinct", 0),
                "rule": stats.get("rule", ""), "samples": stats.get("samples", []) or ["<no cases were run>"],
                "distribution": stats.get("distribution", {}), "extra": stats.get("extra", {}),
                "traces_validated_against_impl": compared,
                "disagreements_checked": sum(len(r.get("disagreements", [])) for r in runs),
                "property_failures_on_impl": len(failing_all),
                "known_finding_regions_reproduced": sorted(by_region.keys()),
                "regenerated_facts": gen_rel, "facts_sha1": hashlib.sha1(facts.encode()).hexdigest() if facts else None,
                "broken": broken,
            },
            "assumptions": cfg.get("assumptions", []),
            "wall_s": round(time.time() - t0, 2),
            "violations": len(violations),
        }
        os.makedirs(os.path.join(VERIF, "evidence"), exist_ok=True)
        json.dump(ev, open(os.path.join(VERIF, "evidence", pid + ".json"), "w"), indent=1)
    finally:
        shutil.rmtree(scratch, ignore_errors=True)
        os.makedirs(os.path.join(BUILD, "logs"), exist_ok=True)
        open(os.path.join(BUILD, "logs", f"{pid}.{tier}.log"), "w").write("\n\n".join(log))
    for l in known_lines:
        print(l)
    if replay:
        rb = json.load(open(replay))
        want = rb.get("case", {}).get("payload")
        again = [b for b, _ in violations if b.get("case", {}).get("payload") == want] if want else violations
        print(f"replay: {'reproduced' if again else 'not reproduced'}")
    if violations:
        existing = glob.glob(os.path.join(VERIF, "replays", pid + "-*.json"))
        n = len(existing) + 1
        for body, nofail in violations:
            path = write_replay(pid, n, body)
            n += 1
            print(f"VIOLATION property={pid} replay={path}" + (" no-failing-input-found" if nofail else ""))
        sys.exit(1)
    print(f"OK property={pid} tier={tier} seed={seed} obligations={ob['discharged']}/{ob['obligations']} cases={compared} wall={time.time()-t0:.1f}s")
    sys.exit(0)


if __name__ == "__main__":
    main()
