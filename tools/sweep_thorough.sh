#!/bin/bash
# usage: tools/sweep_thorough.sh SEED ID...   (run from a /verif snapshot; builds everything first)
seed=$1; shift
tools/setup.sh > setup.log 2>&1
for id in "$@"; do
  t0=$(date +%s)
  VERIF_SEED=$seed python3 tools/check.py $id --tier thorough > thorough.$id.$seed.log 2>&1
  rc=$?
  echo "$id seed=$seed rc=$rc t=$(( $(date +%s)-t0 )) kf=$(grep -c KNOWN-FINDING thorough.$id.$seed.log) $(grep VIOLATION thorough.$id.$seed.log | head -1)"
done
